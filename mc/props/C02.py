"""C02 Expression text parses to the tree the precedence rules dictate (DESIGN 4, C02)."""

import itertools

from ..common import HarnessError, load_impl
from ..engine.shard import Acc, Family, split
from ..gen import exprs as gx
from ..ref import expr as rx

LEVEL = 'model_checking'
RULE = ('every expression text of four explicitly enumerated sets is parsed by parse_expression and by an independent '
        'lexer + precedence-climbing parser; accept/reject and the whole tree are compared. chains: every operator '
        'sequence over the 14 binary operators to the length bound, printed spaced, printed without spaces, and with each '
        'of 17 operand decorations at each single position; levels: every sequence over one operator per precedence level '
        '(the two operators of a level alternate by position); trees: every tree over {binary x 7 levels, unary ! -, '
        'group, call/1, call/2} and leaves {a, 1, \'s\'} to the node bound, printed with minimal and with full '
        'parentheses (expected model = the tree with a group node exactly where the printer emitted parentheses); soup: '
        'every sequence over 16 tokens joined by single spaces, plus the same sequence without spaces when the reference '
        'lexer reads the same tokens from it. state = one distinct text, transition = one parse by the implementation, '
        'trace = one text whose outcome was compared with the reference. Non-trivial: a chain whose tree is not the plain '
        'left-nested fold; a tree whose minimal print differs from its full print; a soup text that is accepted.')
ASSUMPTIONS = [
    'lexical grammar as documented by the token regexes: numbers [+-]?digits(.digits*)?(e[+-]digits)?, quoted strings with '
    'backslash escapes of the quote and the backslash, identifiers, [bracketed names] with \\] escape, a call is an identifier '
    'of >= 2 characters followed by (',
    'a sign belongs to a number literal only where an operand is expected; the signed literal -1 and unary minus applied to '
    'the literal 1 are the same tree (normal form), because they mean the same under "unary binds tighter than any binary"',
    'error messages and column numbers are not compared (C06 owns them)',
    'lexical corners the grammar leaves open (unterminated string after an escaped quote, bracketed names with edge white '
    'space or stray backslashes) are UNSPECIFIED; the enumerated sets contain none',
]

_N_DECO = len(gx.DECORATIONS)


# ---------------------------------------------------------------------------------------------------------------------
# one text: implementation outcome against the reference outcome


def impl_outcome(text):
    bs = load_impl()
    from bare_script.parser import BareScriptParserError  # pylint: disable=import-outside-toplevel,import-error
    try:
        return ('ok', bs.parse_expression(text))
    except BareScriptParserError as exc:
        return ('reject', str(exc.error))
    except Exception as exc:  # pylint: disable=broad-exception-caught
        return ('crash', f'{type(exc).__name__}: {exc}')


def same_tree(got, want):
    """Model equality up to the normal form of signed literals (ref/expr.normal)."""
    if got == want:
        return True
    if not rx.well_formed(got):
        return False
    return rx.normal(got) == rx.normal(want)


def compare_text(text, acc, case, want=None):
    """Parse `text` with both parsers and record a violation on any difference. `want`: a model the text must parse to
    by construction (family trees) - then the reference parser is itself checked against it (harness error if it differs).
    Returns (reference outcome kind, reference model or None)."""
    ref = rx.parse_outcome(text)
    acc.states += 1
    if want is not None:
        if ref[0] != 'ok' or rx.normal(ref[1]) != rx.normal(want):
            raise HarnessError(f'C02 reference parser disagrees with the printer on {text!r}: {ref!r} vs {want!r}')
    got = impl_outcome(text)
    acc.evals += 1
    acc.transitions += 1
    if ref[0] == 'unspecified':
        acc.unspecified += 1
        return ref[0], None
    acc.traces += 1
    vcase = dict(case, text=text)
    if got[0] == 'crash':
        acc.violation(vcase, ref[0], got[1], 'parse_expression raised something other than BareScriptParserError')
    elif ref[0] == 'reject':
        if got[0] != 'reject':
            acc.violation(vcase, 'BareScriptParserError (' + ref[1] + ')', got[1],
                          'text that is not a well-formed expression was accepted (silently re-interpreted)')
    elif got[0] == 'reject':
        acc.violation(vcase, ref[1], 'BareScriptParserError: ' + got[1], 'well-formed expression was rejected')
    elif not same_tree(got[1], ref[1]):
        acc.violation(vcase, ref[1], got[1], first_difference(got[1], ref[1]))
    return ref[0], (ref[1] if ref[0] == 'ok' else None)


def first_difference(got, want, path='$'):
    if not rx.well_formed(got):
        return 'parse_expression returned something that is not an expression model'
    return _diff(rx.normal(got), rx.normal(want), path)


def _diff(got, want, path):
    (gk, gv), = got.items()
    (wk, wv), = want.items()
    if gk != wk:
        return f'at {path}: a {gk} node where the precedence rules give a {wk} node'
    if gk == 'binary':
        if gv['op'] != wv['op']:
            return f'at {path}: operator {gv["op"]} where the precedence rules put {wv["op"]}'
        return _diff(gv['left'], wv['left'], path + '.left') if gv['left'] != wv['left'] else _diff(gv['right'], wv['right'], path + '.right')
    if gk == 'unary':
        if gv['op'] != wv['op']:
            return f'at {path}: unary {gv["op"]} instead of {wv["op"]}'
        return _diff(gv['expr'], wv['expr'], path + '.expr')
    if gk == 'group':
        return _diff(gv, wv, path + '.group')
    if gk == 'function':
        if gv['name'] != wv['name'] or len(gv['args']) != len(wv['args']):
            return f'at {path}: call {gv["name"]}/{len(gv["args"])} instead of {wv["name"]}/{len(wv["args"])}'
        for i, (ga, wa) in enumerate(zip(gv['args'], wv['args'])):
            if ga != wa:
                return _diff(ga, wa, f'{path}.args[{i}]')
    return f'at {path}: {gk} {gv!r} instead of {wv!r}'


def left_nested(model):
    """True if no binary node has a binary node as its right operand (the plain left fold of the chain)."""
    while 'binary' in model:
        if 'binary' in model['binary']['right']:
            return False
        model = model['binary']['left']
    return True


# ---------------------------------------------------------------------------------------------------------------------
# (a) chains over the 14 operators, with decorations


def check_chains(case, acc):
    ops = [gx.OPS14[i] for i in case['ops']]
    spaced = gx.chain_text(ops)
    kind, model = compare_text(spaced, acc, dict(case, variant='spaced'))
    compare_text(gx.chain_text(ops, sep=''), acc, dict(case, variant='compact'))
    for pos in range(len(ops) + 1):
        for deco in range(_N_DECO):
            compare_text(gx.decorated_chain_text(ops, pos, deco), acc, dict(case, variant=f'{gx.DECORATIONS[deco][0]}@{pos}'))
    return kind, model


def fam_chains(arg):
    tier, units = arg
    acc = Acc('chains')
    max_len = 4 if tier == 'quick' else 5
    for unit in units:
        idx = None
        for idx in gx.unit_chains(14, unit, max_len):
            acc.cases += 1
            _, model = check_chains({'ops': list(idx)}, acc)
            if model is not None and not left_nested(model):
                acc.nontrivial += 1
            if len(idx) <= 3:
                acc.outcome(repr(model))
        if idx is not None:
            ops = [gx.OPS14[i] for i in idx]
            acc.sample({'text': gx.chain_text(ops), 'decorated': gx.decorated_chain_text(ops, len(ops) // 2, 4 + len(ops) % 3)})
    return acc.result()


def chains_expected(max_len):
    cases = sum(14 ** k for k in range(1, max_len + 1))
    texts = sum(14 ** k * (2 + _N_DECO * (k + 1)) for k in range(1, max_len + 1))
    return cases, texts


# ---------------------------------------------------------------------------------------------------------------------
# (b) long chains over one operator per precedence level


def level_ops(idx):
    return [gx.LEVEL_REPS[lv][pos % 2] for pos, lv in enumerate(idx)]


def check_levels(case, acc):
    ops = level_ops(case['levels'])
    return compare_text(gx.chain_text(ops), acc, case)


def fam_levels(arg):
    tier, units = arg
    acc = Acc('levels')
    max_len = 6 if tier == 'quick' else 7
    for unit in units:
        idx = None
        for idx in gx.unit_chains(7, unit, max_len):
            acc.cases += 1
            _, model = check_levels({'levels': list(idx)}, acc)
            if model is not None and not left_nested(model):
                acc.nontrivial += 1
            if len(idx) <= 4:
                acc.outcome(repr(model))
        if idx is not None:
            acc.sample({'text': gx.chain_text(level_ops(idx))})
    return acc.result()


# ---------------------------------------------------------------------------------------------------------------------
# (c) trees printed with minimal / full parentheses


def check_tree_rec(rec, acc, case):
    compare_text(rec.tmin, acc, dict(case, style='minimal'), want=rec.emin)
    if rec.tfull != rec.tmin:
        compare_text(rec.tfull, acc, dict(case, style='full'), want=rec.efull)


def check_trees(case, acc):
    """Replay: case = {'unit': descriptor, 'index': position inside the unit}."""
    for i, rec in enumerate(gx.gen_unit(case['unit'])):
        if i == case['index']:
            check_tree_rec(rec, acc, case)
            return
    raise HarnessError(f'C02 trees: no tree {case["index"]} in unit {case["unit"]}')


def fam_trees(arg):
    _tier, units = arg
    acc = Acc('trees')
    for unit in units:
        rec = None
        for i, rec in enumerate(gx.gen_unit(unit)):
            acc.cases += 1
            check_tree_rec(rec, acc, {'unit': unit, 'index': i})
            if rec.tfull != rec.tmin:
                acc.nontrivial += 1
            if i < 40:
                acc.outcome((rec.tmin, rec.added))
        if rec is not None:
            acc.sample({'minimal': rec.tmin, 'full': rec.tfull, 'groups_added_by_minimal_print': rec.added})
    return acc.result()


# ---------------------------------------------------------------------------------------------------------------------
# (d) token soup


def _tokens_or_none(text):
    try:
        return [(k, v) for k, v, _ in rx.lex(text)]
    except (rx.RefSyntaxError, rx.RefUnspecified):
        return None


def check_soup(case, acc):
    toks = [gx.SOUP[i] for i in case['tokens']]
    spaced = ' '.join(toks)
    kind, _ = compare_text(spaced, acc, dict(case, variant='spaced'))
    if len(toks) > 1:
        lexed = _tokens_or_none(spaced)
        if lexed is not None:
            compact = ''.join(toks)
            if _tokens_or_none(compact) == lexed:
                compare_text(compact, acc, dict(case, variant='compact'))
                acc.count('compact_texts')
    return kind


def fam_soup(arg):
    tier, units = arg
    acc = Acc('soup')
    max_len = 5 if tier == 'quick' else 6
    for unit in units:
        idx = accepted = None
        for idx in gx.unit_chains(16, unit, max_len):
            acc.cases += 1
            kind = check_soup({'tokens': list(idx)}, acc)
            if kind == 'ok':
                acc.nontrivial += 1
                accepted = idx
                if len(idx) <= 4:
                    acc.outcome(idx)
        acc.outcome(('unit', tuple(unit)))
        for pick in (accepted, idx):
            if pick is not None:
                acc.sample({'text': ' '.join(gx.SOUP[i] for i in pick), 'reference': rx.parse_outcome(' '.join(gx.SOUP[i] for i in pick))[0]})
    return acc.result()


# ---------------------------------------------------------------------------------------------------------------------
# (e) string literals: the VALUE of the leaf (escape rule), both quote kinds

# Pieces of a literal's body; Q = the literal's own quote character, O = the other one. Only backslash+backslash and
# backslash+own-quote are escapes; everything else - backslash+other-quote, backslash+letter, the other quote - is literal
# text, backslash included. (piece text, its value or None when the value depends on what follows)
STRING_PIECES = [('a', 'a'), ('\\Q', 'Q'), ('\\O', '\\O'), ('\\\\', '\\'), ('\\n', '\\n'), ('\\f', '\\f'), ('\\u', '\\u'), ('O', 'O'), (' ', ' '),
                 ('\\', None)]
STRING_MAX_PIECES = 3
STRING_CONTEXTS = ['{L}', 'fn(x, {L})', '{L} + x', 'x == {L}']


def string_literal(quote, idx):
    """(literal text, value by construction or None if the body contains a lone backslash piece)."""
    other = '"' if quote == "'" else "'"
    body, value = [], []
    for i in idx:
        text, val = STRING_PIECES[i]
        body.append(text.replace('Q', quote).replace('O', other))
        value.append(None if val is None else val.replace('Q', quote).replace('O', other))
    return quote + ''.join(body) + quote, (None if None in value else ''.join(value))


def check_strings(case, acc):
    quote = "'" if case['quote'] == 'single' else '"'
    literal, value = string_literal(quote, case['pieces'])
    if value is not None:
        # the reference lexer against the value known by construction
        ref = rx.parse_outcome(literal)
        if ref != ('ok', {'string': value}):
            raise HarnessError(f'C02 reference lexer reads {literal!r} as {ref!r}, by construction it is {value!r}')
    kinds = []
    for ctx in STRING_CONTEXTS:
        kind, _ = compare_text(ctx.replace('{L}', literal), acc, dict(case, context=ctx))
        kinds.append(kind)
    return kinds[0], value


def fam_strings(arg):
    acc = Acc('strings')
    for quote, first in arg:
        last = None
        for n in range(0 if first is None else 1, STRING_MAX_PIECES + 1):
            if first is None and n > 0:
                break
            for rest in itertools.product(range(len(STRING_PIECES)), repeat=max(0, n - 1)):
                idx = [] if first is None else [first] + list(rest)
                acc.cases += 1
                kind, value = check_strings({'quote': quote, 'pieces': idx}, acc)
                acc.outcome((kind, value if len(idx) <= 2 else len(value or '')))
                if kind == 'ok' and value is not None and any(STRING_PIECES[i][0] != STRING_PIECES[i][1] for i in idx):
                    acc.nontrivial += 1        # an accepted literal whose value differs from its body text
                last = idx
        if last is not None:
            acc.sample({'literal': string_literal("'" if quote == 'single' else '"', last)[0], 'contexts': STRING_CONTEXTS})
    return acc.result()


def string_shards():
    """(quote kind, first piece or None for the empty literal)."""
    return [[(q, None)] + [(q, i) for i in range(len(STRING_PIECES))] for q in ('single', 'double')]


# ---------------------------------------------------------------------------------------------------------------------


def _shards(units, nlong):
    """The short units one per shard (they come first, so the first recorded violation is a smallest one), the long
    units split into nlong contiguous shards."""
    short = [[u] for u in units if u[0] == 's']
    return short + split([u for u in units if u[0] == 'l'], nlong)


def families(tier):
    quick = tier == 'quick'
    clen = 4 if quick else 5
    ccases, ctexts = chains_expected(clen)
    llen = 6 if quick else 7
    tmax = 3 if quick else 4
    slen = 5 if quick else 6
    tree_units = [u for n in range(tmax + 1) for u in gx.tree_units(n)]
    return [
        Family('chains', fam_chains, [(tier, u) for u in _shards(gx.chain_units(14), 98)],
               f'every chain of 1..{clen} operators over the 14 binary operators; per chain: spaced, compact and {_N_DECO} decorations x every operand position ({ctexts} texts)',
               expected=ccases),
        Family('levels', fam_levels, [(tier, u) for u in _shards(gx.chain_units(7), 49)],
               f'every chain of 1..{llen} operators over one operator per precedence level (7 levels, the two operators of a level alternating by position)',
               expected=sum(7 ** k for k in range(1, llen + 1))),
        Family('trees', fam_trees, [(tier, u) for u in split(tree_units, 96 if quick else 224)],
               f'every tree with <= {tmax} internal nodes over 7 binary levels, ! and -, group, call/1, call/2, leaves a 1 \'s\'; minimal and full parentheses',
               expected=sum(gx.tree_count(n) for n in range(tmax + 1))),
        Family('strings', fam_strings, [[u] for shard in string_shards() for u in shard],
               f'every string literal whose body is a sequence of 0..{STRING_MAX_PIECES} pieces over {len(STRING_PIECES)} pieces (own/other quote escaped and '
               f'unescaped, double backslash, backslash+letter, lone backslash), both quote kinds, in {len(STRING_CONTEXTS)} contexts (alone, call argument, operand)',
               expected=2 * sum(len(STRING_PIECES) ** k for k in range(STRING_MAX_PIECES + 1))),
        Family('soup', fam_soup, [(tier, u) for u in _shards(gx.chain_units(16), 128)],
               f'every sequence of 1..{slen} tokens over {len(gx.SOUP)} tokens joined by single spaces (+ compact form when lexically unambiguous)',
               expected=sum(16 ** k for k in range(1, slen + 1))),
    ]


_CHECKS = {'chains': check_chains, 'levels': check_levels, 'trees': check_trees, 'soup': check_soup, 'strings': check_strings}


def replay(family, case):
    acc = Acc(family)
    case = {k: v for k, v in case.items() if k not in ('text', 'variant', 'style', 'context')}
    _CHECKS[family](case, acc)
    res = acc.result()
    return {'differs': bool(res['nviol'] or res['nknown']), 'violations': res['violations'] + res['known_violations']}
