"""C19 Data functions implement their relational meaning; CSV typing round-trips (DESIGN 4, C19)."""

import datetime
import itertools

from ..common import canon_flat, exc_obs, load_impl
from ..engine.shard import Acc, Family, split
from ..ref import data as rd
from ..ref import values as rv

LEVEL = 'model_checking'
RULE = ('state = one table (or one ordered pair of tables for dataJoin, one typed table for CSV); transition = one call of a '
        'data* function of the implementation on a freshly built copy; trace = one result compared with mc/ref/data.py. '
        'Tables: every table of <= N rows over fields {a,b}, each cell one of {absent, null, 1, 2, "x]", "x.0]"} '
        '(the two strings collide once JSON punctuation inside strings is rewritten). Per table: 5 filters, all 43 sort '
        'key lists of length <= 2 with omitted/false/true direction flags, dataTop for count 1..3 as int and as float x 3 '
        'category lists, 6 aggregation functions x 2 category lists (+ one two-measure call), 3 calculated fields. Joins: '
        'every ordered pair of tables of <= 2 rows (key space: fields a,b; name space: field subsets of {a,a2,a3,b} with '
        'distinct marker values) x key expressions x flag. Scripts: the same operations through parse_script/'
        'execute_script with the table as a global and counts as float literals. CSV: every typed table of <= R rows x 2 '
        'columns, written by the reference writer, read as one string, as separate line strings and from a script. '
        'Scopes: every table x 9 calls of dataFilter / dataCalculatedField / dataJoin whose expressions use a name that is at '
        'once a global of the caller (kk = 1, b = 1, gg = 7), a key of the variables argument (kk = 2, b = 2, arrayLength = 2) and '
        'possibly a row field (b); 5 more scripts set the global with a script statement (non-trivial: swapping variables and '
        'globals in the lookup changes the expected result on this table). '
        'Literal look-alikes: every table of <= N rows whose column a is drawn from {null, abc, true, false, True, FALSE, TRUE, '
        'Null, NULL, NaN, Infinity, -inf}: only the exact texts true/false/null are typed, the others are strings and the '
        'parse goes on (non-trivial: a string column holding a look-alike). '
        'Month ends: for the years 2024, 2023, 1900, 2000, 0000, 9999 (thorough: more) x 12 months x days max-1, max, max+1 of the '
        'longest length of the month x date / date-time texts (+ 5-digit years): the text alone, as first and as later cell of a '
        'column; a day that exists by the reference civil calendar is a datetime, any other text stays a string and the table is '
        'parsed (non-trivial: the text names no existing day). '
        'Backslashes: every table of <= 2 rows x 3 string columns over cells with a backslash in the middle, at the end, doubled, '
        'before a comma, before a quote, before n, alone, with plain and with backslash-bearing header names, written with RFC '
        '4180 quoting only (non-trivial: a cell holds a backslash). '
        'Calendar ends: every table of <= 3 rows whose column a is drawn from {null, 0001-01-01T00:00:00+23:59, '
        '9999-12-31T23:59:59-23:59, 9999-12-31T23:59:59Z, 0001-01-01T00:00:00Z, a valid date-time, abc} under UTC and DST zones: '
        'a text whose local time does not exist in years 1..9999 stays a string and the rest of the table is parsed '
        '(non-trivial: the table holds such a text). '
        'Delicate measures: every table of <= N rows with a in {absent,1,2} and measure b in {absent, null, 100000001, '
        '100000002, 100000003, 0.1, 0.2, 0.3, 1e+15, -1e+15} x 6 functions x 2 category lists against an exact (fractions) '
        'reference with tolerances a sound float evaluation meets (non-trivial: a category with >= 2 different values). '
        'Key kinds: every table of <= N rows whose field a is one of {absent, null, true, false, 1, 0, "1", "true", "null", '
        '[true], [1]} (values that differ in BareScript but merge under host ==, hash or text conversion) x filters, 21 sort '
        'key lists, dataTop and dataAggregate with a as category; every ordered pair of such tables of <= 2 rows x dataJoin '
        'on a and on left a = right b. Time zones: every table of <= 2 rows x 2 datetime columns (January and July instants '
        'spelled with Z, +00:00, -05:00 and the local offset, date-only texts, null) read with the process time zone set '
        '(time.tzset, after the implementation was imported under UTC) to zones with daylight saving time, expected local '
        'time from zoneinfo with the offset in force at each instant. '
        'Non-trivial: filter keeps a proper non-empty subset; sort changes the row order; top drops some but not all rows; '
        'a category aggregates >= 2 non-null values; a calculated value is non-null; a join has a matched pair (name '
        'space: a renamed right field); a script result is a non-empty array; a CSV table has a non-string typed value, '
        'a quoted cell or date-like invalid text; a key-kind table or pair holds two values of one merge pair (true/1, '
        '1/"1", true/"true", false/0, null-or-absent/"null", [true]/[1]); a time-zone table holds a January and a July datetime.')
ASSUMPTIONS = [
    'an absent field has the value null (category value, sort key, expression variable)',
    'name lookup in row expressions is innermost first: a field the row has, then the variables argument, then the globals '
    'of the caller (doc comments: "additional variables for expression evaluation"; a flipped order lets a global hide the argument)',
    'the order of categories in the results of dataTop and dataAggregate is not stated: results are compared per category '
    '(rows of one category in input order for dataTop)',
    'dataJoin output is left-major: left rows in order, their right partners in right-row order; null keys are equal to '
    'null keys (language equality)',
    'the right-field renaming is name2, name3, ... (first free), as in the quantifier text "colliding field names (a, a2, a3)"',
    'the meaning of the isLeftJoin flag for unmatched left rows is UNSPECIFIED (property silent; doc comment and repository '
    'tests contradict each other): a call may keep all unmatched left rows unchanged or none of them',
    'aggregates: a category without non-null measure values, non-number measure values (other than for count) and '
    'population-versus-sample standard deviation are UNSPECIFIED (both deviations accepted)',
    'CSV: the process time zone is UTC (runner) except in the csv_tz family, which sets TZ and calls time.tzset() itself; '
    'the expected local times there come from the zoneinfo database of this Python; null is written as the text null, or as the empty text in non-string '
    'columns; an empty text in a column without any non-null value is UNSPECIFIED; strings with line breaks are outside',
    'mc/ref/data.py, mc/ref/values.py and the reference CSV writer are trusted',
]

# ---------------------------------------------------------------------------------------------------------------------
# tables over {a, b}
# ---------------------------------------------------------------------------------------------------------------------

ABSENT = ('absent',)
CELLS = [('absent', ABSENT), ('null', None), ('1', 1), ('2', 2), ("'x]'", 'x]'), ("'x.0]'", 'x.0]')]
NC = len(CELLS)
NR = NC * NC     # distinct rows


def build_row(idx):
    ia, ib = divmod(idx, NC)
    row = {}
    if CELLS[ia][1] is not ABSENT:
        row['a'] = CELLS[ia][1]
    if CELLS[ib][1] is not ABSENT:
        row['b'] = CELLS[ib][1]
    return row


def build_table(rows):
    """rows: list of row indices 0..35 (a = idx // 6, b = idx % 6 into CELLS). Always builds fresh objects."""
    return [build_row(i) for i in rows]


def ntables(nrows):
    return sum(NR ** k for k in range(nrows + 1))


def table_shards(nrows, nchunks):
    out = []
    for first in range(NR):
        for ci, chunk in enumerate(split(list(range(NR)), nchunks if nrows >= 2 else 1)):
            out.append((nrows, first, chunk if nrows >= 2 else [], ci == 0))
    return out


def iter_tables(arg):
    """Simplest first inside a shard: the empty table, the one-row table, then by length."""
    nrows, first, seconds, with_short = arg
    if with_short:
        if first == 0:
            yield []
        if nrows >= 1:
            yield [first]
    for n in range(0, max(nrows - 1, 0)):
        for second in seconds:
            for rest in itertools.product(range(NR), repeat=n):
                yield [first, second] + list(rest)


_IMPL = []


def impl():
    if not _IMPL:
        load_impl()
        from bare_script.library import SCRIPT_FUNCTIONS  # pylint: disable=import-outside-toplevel,import-error
        _IMPL.append(SCRIPT_FUNCTIONS)
    return _IMPL[0]


def call(acc, name, args, options=None):
    """One transition: call the script-visible library function. Returns (True, value) or (False, exception observation)."""
    acc.evals += 1
    acc.transitions += 1
    try:
        return True, impl()[name](args, options)
    except Exception as exc:  # pylint: disable=broad-exception-caught
        return False, exc_obs(exc)


def vkey(v):
    """Same equivalence as canon_flat (1 == 1.0, true != 1, absent != null in a row), fast path for scalar cells."""
    if v is None or v is True or v is False or type(v) is str:   # pylint: disable=unidiomatic-typecheck
        return v
    if type(v) is int and v != 0:   # pylint: disable=unidiomatic-typecheck
        return ('n', v)
    if type(v) is float and v == v and v not in (float('inf'), float('-inf')) and v == int(v) and v != 0:   # pylint: disable=unidiomatic-typecheck,comparison-with-itself
        return ('n', int(v))
    return ('c', canon_flat(v))


def tkey(table):
    """Structural key of a table (list of row dicts with string keys); anything else falls back to canon_flat."""
    try:
        if type(table) is list and all(type(r) is dict for r in table):   # pylint: disable=unidiomatic-typecheck
            return tuple(tuple(sorted([(k, vkey(v)) for k, v in r.items()])) for r in table)
    except TypeError:
        pass
    return ('c', canon_flat(table))


def V(name):
    return ('var', name)


def N(n):
    return ('num', n)


def B(op, left, right):
    return ('bin', op, left, right)


# ---------------------------------------------------------------------------------------------------------------------
# comparisons (shared by the direct-call families and the script family). Each returns None or (expected, words).
# ---------------------------------------------------------------------------------------------------------------------

def diff_rows(result, expected, what):
    if not isinstance(result, list) or any(not isinstance(r, dict) for r in result):
        return canon_flat(expected), f'{what}: result is not an array of row objects'
    if tkey(result) != tkey(expected):
        if len(result) != len(expected):
            return canon_flat(expected), f'{what}: {len(result)} rows instead of {len(expected)}'
        k = next(i for i, (x, y) in enumerate(zip(result, expected)) if tkey([x]) != tkey([y]))
        return canon_flat(expected), f'{what}: row {k} differs'
    return None


def diff_top(result, rows, count, fields):
    want = rd.ref_top(rows, count, fields)
    if not isinstance(result, list) or any(not isinstance(r, dict) for r in result):
        return show_groups(want), 'dataTop: result is not an array of row objects'
    got = rd.ref_groups(result, fields)
    for key, members in want.items():
        have = got.get(key, [])
        if tkey(have) != tkey(members):
            return show_groups(want), (f'dataTop: category {key!r} has {len(have)} rows instead of the first {len(members)}'
                           if len(have) != len(members) else f'dataTop: category {key!r} does not hold its first {len(members)} rows in order')
    for key in got:
        if key not in want:
            return show_groups(want), f'dataTop: rows of a category {key!r} that is not in the table'
    return None


def show_groups(groups):
    return {repr(k): canon_flat(v) for k, v in groups.items()}


def diff_aggregate(result, rows, categories, measures, acc, exact=False):
    want = rd.ref_aggregate(rows, categories, measures, exact)
    d = _diff_aggregate(result, want, categories, measures, acc)
    if d:
        return {repr(k): [canon_flat(c), {n: (v if v is rd.UNSPECIFIED else list(v)) for n, v in m.items()}] for k, (c, m) in want.items()}, d
    return None


def _diff_aggregate(result, want, categories, measures, acc):
    if not isinstance(result, list) or any(not isinstance(r, dict) for r in result):
        return 'dataAggregate: result is not an array of row objects'
    seen = set()
    for row in result:
        key = rd.group_key(row, categories)
        if key not in want:
            return f'dataAggregate: a row for category {key!r} that is not in the table'
        if key in seen:
            return f'dataAggregate: category {key!r} appears twice (not a partition)'
        seen.add(key)
        for name, accept in want[key][1].items():
            if accept is rd.UNSPECIFIED:
                acc.unspecified += 1
                continue
            got = row.get(name)
            if not any(rd.value_within(got, a) for a in accept):
                func = next(f for _, f, n in measures if n == name)
                return f'dataAggregate: {func} of category {key!r} is {got!r}, expected {accept[0]!r}' + (' (value, absolute tolerance)' if isinstance(accept[0], tuple) else '')
    if len(seen) != len(want):
        missing = next(k for k in want if k not in seen)
        return f'dataAggregate: no row for category {missing!r}'
    return None


def diff_join(result, blocks, acc):
    """Flag-agnostic: all unmatched left rows kept unchanged in place, or none of them (UNSPECIFIED which)."""
    both = [rd.join_flatten(blocks, True), rd.join_flatten(blocks, False)]
    if any(kind == 'unmatched' for kind, _ in blocks):
        acc.unspecified += 1
    if not isinstance(result, list) or any(not isinstance(r, dict) for r in result):
        return canon_flat(both[1]), 'dataJoin: result is not an array of row objects'
    cr = tkey(result)
    if cr == tkey(both[1]) or cr == tkey(both[0]):
        return None
    # words: compare the matched pairs only
    matched = both[1]
    lefts = [blk[1][0] for blk in blocks if blk[0] == 'unmatched']
    rest = [r for r in result if not any(canon_flat(r) == canon_flat(x) for x in lefts)]
    if canon_flat(rest) == canon_flat(matched):
        words = 'dataJoin: unmatched left rows are neither all kept in place nor all dropped'
    elif len(rest) != len(matched):
        words = f'dataJoin: {len(rest)} joined rows instead of {len(matched)} (one per left row and equal-key right row)'
    else:
        k = next(i for i, (x, y) in enumerate(zip(rest, matched)) if canon_flat(x) != canon_flat(y))
        words = f'dataJoin: joined row {k} differs (left fields must be kept, right fields renamed to free names)'
    return canon_flat(matched), words


# ---------------------------------------------------------------------------------------------------------------------
# family filter
# ---------------------------------------------------------------------------------------------------------------------

FILTERS = [
    (B('==', V('a'), N(1)), None),
    (V('b'), None),
    (B('<', V('a'), V('b')), None),
    (B('-', V('a'), N(1)), None),                                             # 0 is falsy
    (B('||', B('==', V('a'), V('lim')), B('==', V('b'), V('lim'))), {'lim': 2}),   # variables argument
]


def check_filter(case, acc):
    rows = case['rows']
    table = build_table(rows)
    hit = False
    for k, (e, variables) in enumerate(FILTERS):
        if case.get('variant', k) != k:
            continue
        text = rd.expr_text(e)
        args = [build_table(rows), text] + ([dict(variables)] if variables is not None else [])
        ok, res = call(acc, 'dataFilter', args)
        want = rd.ref_filter(table, e, variables)
        acc.traces += 1
        c2 = dict(case, variant=k, op=f'dataFilter(t, {text!r}' + (f', {variables})' if variables else ')'), table=table)
        if not ok:
            acc.violation(c2, canon_flat(want), res, 'dataFilter raised')
            continue
        d = diff_rows(res, want, 'dataFilter')
        if d:
            acc.violation(c2, d[0], canon_flat(res), d[1])
        if 0 < len(want) < len(table):
            hit = True
        acc.outcome((k, len(table), len(want)))
    return hit


# ---------------------------------------------------------------------------------------------------------------------
# family sort
# ---------------------------------------------------------------------------------------------------------------------

def _sort_keys():
    keys = [[f] + flag for f in ('a', 'b') for flag in ([], [False], [True])]
    specs = [[]]
    specs += [[k] for k in keys]
    specs += [[k1, k2] for k1 in keys for k2 in keys]
    return specs


SORTS = _sort_keys()     # 1 + 6 + 36 = 43


def check_sort(case, acc):
    rows = case['rows']
    table = build_table(rows)
    base = tkey(table)
    hit = False
    for k, spec in enumerate(SORTS):
        if case.get('variant', k) != k:
            continue
        ok, res = call(acc, 'dataSort', [build_table(rows), [list(s) for s in spec]])
        want = rd.ref_sort(table, spec)
        acc.traces += 1
        c2 = dict(case, variant=k, op=f'dataSort(t, {spec})', table=table)
        if not ok:
            acc.violation(c2, canon_flat(want), res, 'dataSort raised')
            continue
        d = diff_rows(res, want, 'dataSort (stable, keys and directions)')
        if d:
            acc.violation(c2, d[0], canon_flat(res), d[1])
        cw = tkey(want)
        if cw != base:
            hit = True
        if k % 7 == 0:
            acc.outcome((k, cw))
    return hit


# ---------------------------------------------------------------------------------------------------------------------
# family top
# ---------------------------------------------------------------------------------------------------------------------

TOPS = [(count, spelling, cats) for count in (1, 2, 3) for spelling in ('int', 'float') for cats in (None, ['a'], ['a', 'b'])]


def check_top(case, acc):
    rows = case['rows']
    table = build_table(rows)
    hit = False
    for k, (count, spelling, cats) in enumerate(TOPS):
        if case.get('variant', k) != k:
            continue
        cnt = count if spelling == 'int' else float(count)
        args = [build_table(rows), cnt] + ([list(cats)] if cats is not None else [])
        ok, res = call(acc, 'dataTop', args)
        acc.traces += 1
        c2 = dict(case, variant=k, op=f'dataTop(t, {cnt!r}' + (f', {cats})' if cats else ')'), table=table)
        if not ok:
            acc.violation(c2, show_groups(rd.ref_top(table, count, cats)), res, 'dataTop raised')
            continue
        d = diff_top(res, table, count, cats)
        if d:
            acc.violation(c2, d[0], canon_flat(res), d[1])
        kept = sum(len(v) for v in rd.ref_top(table, count, cats).values())
        if 0 < kept < len(table):
            hit = True
        acc.outcome((k, len(table), kept))
    return hit


# ---------------------------------------------------------------------------------------------------------------------
# family aggregate
# ---------------------------------------------------------------------------------------------------------------------

AGGS = [([('b', func, 'b')], cats) for cats in (None, ['a']) for func in rd.AGG_FUNCTIONS] + \
       [([('b', 'count', 'cnt'), ('b', 'sum', 'total')], ['a'])]      # two named measures in one call


def agg_model(measures, cats):
    model = {'measures': [dict({'field': f, 'function': func}, **({'name': n} if n != f else {})) for f, func, n in measures]}
    if cats is not None:
        model['categories'] = list(cats)
    return model


def check_aggregate(case, acc):
    rows = case['rows']
    table = build_table(rows)
    strings = any(isinstance(r.get('b'), str) for r in table)
    hit = any(sum(1 for m in members if m.get('b') is not None) >= 2 for members in rd.ref_groups(table, ['a']).values())
    for k, (measures, cats) in enumerate(AGGS):
        if case.get('variant', k) != k:
            continue
        if not table or (strings and any(func != 'count' for _, func, _ in measures)):
            acc.unspecified += 1      # empty table (zero rows or one null row?) / non-number measure values
            continue
        model = agg_model(measures, cats)
        ok, res = call(acc, 'dataAggregate', [build_table(rows), model])
        acc.traces += 1
        c2 = dict(case, variant=k, op=f'dataAggregate(t, {model})', table=table)
        if not ok:
            acc.violation(c2, 'an aggregated data array', res, 'dataAggregate raised')
            continue
        d = diff_aggregate(res, table, cats, measures, acc)
        if d:
            acc.violation(c2, d[0], canon_flat(res), d[1])
        if k % 3 == 0:
            acc.outcome((k, tkey(res)))
    return hit


# ---------------------------------------------------------------------------------------------------------------------
# family aggregate_num: numerically delicate measure values (large offset with a small spread, decimal fractions,
# huge values of both signs that cancel); a in {absent, 1, 2} is the category
# ---------------------------------------------------------------------------------------------------------------------

NUM_A = [ABSENT, 1, 2]
NUM_B = [ABSENT, None, 100000001, 100000002, 100000003, 0.1, 0.2, 0.3, 1e+15, -1e+15]
NUM_AGGS = [(func, cats) for cats in (None, ['a']) for func in rd.AGG_FUNCTIONS]


def build_num_table(rows):
    """rows: list of [index into NUM_A, index into NUM_B]."""
    out = []
    for ia, ib in rows:
        row = {}
        if NUM_A[ia] is not ABSENT:
            row['a'] = NUM_A[ia]
        if NUM_B[ib] is not ABSENT:
            row['b'] = NUM_B[ib]
        out.append(row)
    return out


def num_rows():
    return [[ia, ib] for ia in range(len(NUM_A)) for ib in range(len(NUM_B))]


def check_aggregate_num(case, acc):
    rows = case['rows']
    table = build_num_table(rows)
    for k, (func, cats) in enumerate(NUM_AGGS):
        if case.get('variant', k) != k:
            continue
        if not table:
            acc.unspecified += 1
            continue
        measures = [('b', func, 'b')]
        model = agg_model(measures, cats)
        ok, res = call(acc, 'dataAggregate', [build_num_table(rows), model])
        acc.traces += 1
        c2 = dict(case, variant=k, op=f'dataAggregate(t, {model})', table=table)
        if not ok:
            acc.violation(c2, 'an aggregated data array', res, 'dataAggregate raised')
            continue
        d = diff_aggregate(res, table, cats, measures, acc, exact=True)
        if d:
            acc.violation(c2, d[0], canon_flat(res), d[1])
        if k in (5, 11):
            acc.outcome((k, tkey(res)))
    # non-trivial: a category holds >= 2 different non-null measure values (deviation and mean are not a single value)
    return any(len({m.get('b') for m in members if m.get('b') is not None}) >= 2 for members in rd.ref_groups(table, ['a']).values())


def num_shards(nrows, nchunks):
    n = len(num_rows())
    return [(nrows, first, chunk, ci == 0) for first in range(n) for ci, chunk in enumerate(split(list(range(n)), nchunks))]


def fam_aggregate_num(arg):
    nrows, first, seconds, with_short = arg
    acc = Acc('aggregate_num')
    cells = num_rows()

    def tables():
        if with_short:
            if first == 0:
                yield []
            yield [cells[first]]
        for n in range(0, nrows - 1):
            for second in seconds:
                for rest in itertools.product(cells, repeat=n):
                    yield [cells[first], cells[second]] + list(rest)
    for rows in tables():
        acc.cases += 1
        acc.states += 1
        if check_aggregate_num({'rows': rows}, acc):
            acc.nontrivial += 1
        if len(rows) == 3 and [r[1] for r in rows] == [2, 3, 4] and rows[0][0] == rows[1][0] == rows[2][0]:
            acc.sample({'table': build_num_table(rows), 'operations': 'dataAggregate, six functions, categories none and [a]'})
    return acc.result()


# ---------------------------------------------------------------------------------------------------------------------
# family scope: name collisions between row fields, the `variables` argument and the globals of the caller
# (options['globals']). Innermost wins: a field the row has, then variables, then globals.
# ---------------------------------------------------------------------------------------------------------------------

SCOPE_GLOBALS = {'kk': 1, 'b': 1, 'gg': 7}
SCOPES = [
    ('filter', B('==', V('a'), V('kk')), {'kk': 2}),                      # variable shadows the global kk
    ('filter', B('==', V('a'), V('kk')), None),                           # no variables: the global is seen
    ('filter', B('==', V('a'), V('kk')), {'other': 2}),                   # variables without kk: the global is still seen
    ('filter', B('==', V('a'), V('b')), {'b': 2}),                        # field b shadows variable b shadows global b
    ('calc', B('+', B('+', V('a'), V('kk')), V('gg')), {'kk': 2}),        # variable kk and global gg in one expression
    ('calc', B('+', V('a'), V('b')), {'b': 2}),
    ('calc', B('+', V('a'), V('arrayLength')), {'arrayLength': 2}),       # a variable named like a library function, used as a value
    ('join', (V('a'), B('+', V('a'), V('kk'))), {'kk': 0}),               # right key a + kk: variable 0, global 1
    ('join', (V('b'), V('b')), {'b': 2}),                                 # key b: field, else variable, else global
]


def check_scope(case, acc):
    rows = case['rows']
    table = build_table(rows)
    hit = False
    for k, (kind, e, variables) in enumerate(SCOPES):
        if case.get('variant', k) != k:
            continue
        options = {'globals': dict(SCOPE_GLOBALS)}
        vcopy = dict(variables) if variables is not None else None
        if kind == 'filter':
            text = rd.expr_text(e)
            label = f'dataFilter(t, {text!r}, {variables}) with globals {SCOPE_GLOBALS}'
            ok, res = call(acc, 'dataFilter', [build_table(rows), text, vcopy], options)
            want = rd.ref_filter(table, e, variables, SCOPE_GLOBALS)
            other = rd.ref_filter(table, e, SCOPE_GLOBALS, variables)
            d = ok and diff_rows(res, want, 'dataFilter')
        elif kind == 'calc':
            text = rd.expr_text(e)
            label = f'dataCalculatedField(t, "c", {text!r}, {variables}) with globals {SCOPE_GLOBALS}'
            ok, res = call(acc, 'dataCalculatedField', [build_table(rows), 'c', text, vcopy], options)
            want = rd.ref_calculated(table, 'c', e, variables, SCOPE_GLOBALS)
            other = rd.ref_calculated(table, 'c', e, SCOPE_GLOBALS, variables)
            d = ok and diff_rows(res, want, 'dataCalculatedField')
        else:
            texts = [rd.expr_text(x) for x in e]
            label = f'dataJoin(t, t, {texts[0]!r}, {texts[1]!r}, false, {variables}) with globals {SCOPE_GLOBALS}'
            ok, res = call(acc, 'dataJoin', [build_table(rows), build_table(rows), texts[0], texts[1], False, vcopy], options)
            blocks = rd.ref_join(table, table, e[0], e[1], variables, SCOPE_GLOBALS)
            want = rd.join_flatten(blocks, False)
            other = rd.join_flatten(rd.ref_join(table, table, e[0], e[1], SCOPE_GLOBALS, variables), False)
            d = ok and diff_join(res, blocks, acc)
        acc.traces += 1
        c2 = dict(case, variant=k, op=label, table=table)
        if not ok:
            acc.violation(c2, canon_flat(want), res, f'{label.split("(")[0]} raised')
        elif d:
            acc.violation(c2, d[0], canon_flat(res), d[1] + ' (lookup order: row field, then variables, then globals)')
        if tkey(want) != tkey(other):
            hit = True          # the lookup order matters: globals-before-variables gives another result on this table
        acc.outcome((k, tkey(want)))
    return hit


def fam_scope(arg):
    return run_tables('scope', check_scope, arg)


# ---------------------------------------------------------------------------------------------------------------------
# family calc
# ---------------------------------------------------------------------------------------------------------------------

CALCS = [
    ('c', B('+', V('a'), V('b')), None),
    ('a', B('==', V('a'), V('b')), None),                   # overwrites an existing field
    ('c', B('*', V('b'), V('factor')), {'factor': 3}),      # variables argument
]


def check_calc(case, acc):
    rows = case['rows']
    table = build_table(rows)
    hit = False
    for k, (name, e, variables) in enumerate(CALCS):
        if case.get('variant', k) != k:
            continue
        text = rd.expr_text(e)
        work = build_table(rows)
        args = [work, name, text] + ([dict(variables)] if variables is not None else [])
        ok, res = call(acc, 'dataCalculatedField', args)
        want = rd.ref_calculated(table, name, e, variables)
        acc.traces += 1
        c2 = dict(case, variant=k, op=f'dataCalculatedField(t, {name!r}, {text!r}' + (f', {variables})' if variables else ')'), table=table)
        if not ok:
            acc.violation(c2, canon_flat(want), res, 'dataCalculatedField raised')
            continue
        d = diff_rows(res, want, 'dataCalculatedField')
        if d:
            acc.violation(c2, d[0], canon_flat(res), d[1])
        else:
            d = diff_rows(work, want, 'dataCalculatedField (row objects of the data argument are updated)')
            if d:
                acc.violation(c2, d[0], canon_flat(work), d[1])
        if any(r.get(name) is not None and r.get(name) is not False for r in want):
            hit = True
        acc.outcome((k, tuple(vkey(r.get(name)) for r in want)))
    return hit


# ---------------------------------------------------------------------------------------------------------------------
# table families: plumbing
# ---------------------------------------------------------------------------------------------------------------------

def run_tables(name, check, arg):
    acc = Acc(name)
    for rows in iter_tables(arg):
        acc.cases += 1
        acc.states += 1
        if check({'rows': rows}, acc):
            acc.nontrivial += 1
        if len(rows) == 2 and rows[0] * 7 % NR == rows[1]:
            acc.sample({'table': build_table(rows), 'operations': name})
    return acc.result()


def fam_filter(arg):
    return run_tables('filter', check_filter, arg)


def fam_sort(arg):
    return run_tables('sort', check_sort, arg)


def fam_top(arg):
    return run_tables('top', check_top, arg)


def fam_aggregate(arg):
    return run_tables('aggregate', check_aggregate, arg)


def fam_calc(arg):
    return run_tables('calc', check_calc, arg)


# ---------------------------------------------------------------------------------------------------------------------
# family join_keys: pairs of tables over {a, b}
# ---------------------------------------------------------------------------------------------------------------------

# indices into CELLS for field a and for field b
JOIN_CELLS = {'quick': ([0, 1, 2, 4, 5], [0, 2, 5]), 'thorough': ([0, 1, 2, 3, 4, 5], [0, 1, 2, 3, 4, 5])}

JOINS = [
    (V('a'), None, None, 'omitted'),
    (V('a'), None, None, True),
    (V('b'), None, None, 'omitted'),
    (V('b'), None, None, False),
    (V('a'), V('b'), None, 'omitted'),                                 # left.a == right.b
    (V('a'), V('b'), None, True),
    (V('a'), B('+', V('a'), V('shift')), {'shift': 1}, 'omitted'),     # variables argument
]


def join_args(left, right, left_e, right_e, variables, flag):
    args = [left, right, rd.expr_text(left_e)]
    if right_e is not None or flag != 'omitted' or variables is not None:
        args.append(rd.expr_text(right_e) if right_e is not None else None)
    if flag != 'omitted' or variables is not None:
        args.append(False if flag == 'omitted' else flag)
    if variables is not None:
        args.append(dict(variables))
    return args


def key_tables(tier):
    cells_a, cells_b = JOIN_CELLS[tier]
    rows = [ia * NC + ib for ia in cells_a for ib in cells_b]
    return [[]] + [[r] for r in rows] + [[r1, r2] for r1 in rows for r2 in rows]


def check_join_keys(case, acc):
    lrows, rrows = case['left'], case['right']
    left, right = build_table(lrows), build_table(rrows)
    hit = False
    for k, (le, re_, variables, flag) in enumerate(JOINS):
        if case.get('variant', k) != k:
            continue
        args = join_args(build_table(lrows), build_table(rrows), le, re_, variables, flag)
        label = f'dataJoin(l, r, {args[2:]})'     # before the call: the argument list is completed in place by the callee
        ok, res = call(acc, 'dataJoin', args)
        blocks = rd.ref_join(left, right, le, re_, variables)
        acc.traces += 1
        c2 = dict(case, variant=k, op=label, left_table=left, right_table=right)
        if not ok:
            acc.violation(c2, canon_flat(rd.join_flatten(blocks, False)), res, 'dataJoin raised')
            continue
        d = diff_join(res, blocks, acc)
        if d:
            acc.violation(c2, d[0], canon_flat(res), d[1])
        nm = sum(len(b[1]) for b in blocks if b[0] == 'matched')
        if nm:
            hit = True
        acc.outcome((k, len(left), len(right), nm))
    return hit


def fam_join_keys(arg):
    tier, lefts = arg
    acc = Acc('join_keys')
    tables = key_tables(tier)
    for li in lefts:
        for ri, right in enumerate(tables):
            acc.cases += 1
            acc.states += 1
            if check_join_keys({'left': tables[li], 'right': right}, acc):
                acc.nontrivial += 1
            if ri == (li * 7 + 3) % len(tables) and len(right) == 2:
                acc.sample({'left': build_table(tables[li]), 'right': build_table(right), 'operations': 'dataJoin'})
    return acc.result()


# ---------------------------------------------------------------------------------------------------------------------
# family join_names: colliding field names a, a2, a3, b with distinct marker values
# ---------------------------------------------------------------------------------------------------------------------

def name_rows(tier):
    """(a, a2, a3, b): a is absent (0), 1 or 2 (quick: absent or 1); a2, a3, b are absent (0) or a marker (1)."""
    return [[ia, a2, a3, b] for ia in ((0, 1) if tier == 'quick' else (0, 1, 2)) for a2 in (0, 1) for a3 in (0, 1) for b in (0, 1)]


def build_named(side, rows):
    out = []
    for i, (ia, a2, a3, b) in enumerate(rows):
        row = {}
        if b:
            row['b'] = f'{side}{i}b'
        if a3:
            row['a3'] = f'{side}{i}a3'
        if ia:
            row['a'] = ia
        if a2:
            row['a2'] = f'{side}{i}a2'
        out.append(row)
    return out


def name_tables(tier):
    rows = name_rows(tier)
    return [[]] + [[r] for r in rows] + [[r1, r2] for r1 in rows for r2 in rows]


NAME_JOINS = [(V('a'), 'omitted'), (V('a'), True), (V('b'), 'omitted')]


def check_join_names(case, acc):
    lrows, rrows = case['left'], case['right']
    left, right = build_named('L', lrows), build_named('R', rrows)
    mapping = rd.join_names(left, right)
    hit = False
    for k, (e, flag) in enumerate(NAME_JOINS):
        if case.get('variant', k) != k:
            continue
        args = join_args(build_named('L', lrows), build_named('R', rrows), e, None, None, flag)
        label = f'dataJoin(l, r, {args[2:]})'
        ok, res = call(acc, 'dataJoin', args)
        blocks = rd.ref_join(left, right, e)
        acc.traces += 1
        c2 = dict(case, variant=k, op=label, left_table=left, right_table=right)
        if not ok:
            acc.violation(c2, canon_flat(rd.join_flatten(blocks, False)), res, 'dataJoin raised')
            continue
        d = diff_join(res, blocks, acc)
        if d:
            acc.violation(c2, d[0], canon_flat(res), d[1])
        matched = any(b[0] == 'matched' for b in blocks)
        if matched and any(x != y for x, y in mapping.items()):
            hit = True
        acc.outcome((k, matched, tuple(sorted(mapping.items()))))
    return hit


def fam_join_names(arg):
    tier, lefts = arg
    acc = Acc('join_names')
    tables = name_tables(tier)
    for li in lefts:
        for ri, right in enumerate(tables):
            acc.cases += 1
            acc.states += 1
            if check_join_names({'left': tables[li], 'right': right}, acc):
                acc.nontrivial += 1
            if ri == (li * 7 + 3) % len(tables) and len(right) == 2:
                acc.sample({'left': build_named('L', tables[li]), 'right': build_named('R', right), 'operations': 'dataJoin'})
    return acc.result()


# ---------------------------------------------------------------------------------------------------------------------
# family script: the same operations from parsed scripts; number literals (counts) are floats there
# ---------------------------------------------------------------------------------------------------------------------

SCRIPTS = [
    (f"return dataFilter(tt, '{rd.expr_text(FILTERS[0][0])}')", 'filter', FILTERS[0]),
    (f"return dataFilter(tt, '{rd.expr_text(FILTERS[4][0])}', objectNew('lim', 2))", 'filter', FILTERS[4]),
    ("return dataSort(tt, arrayNew(arrayNew('a', true), arrayNew('b')))", 'sort', [['a', True], ['b']]),
    ("return dataSort(tt, arrayNew(arrayNew('b'), arrayNew('a', true)))", 'sort', [['b'], ['a', True]]),
    ('return dataTop(tt, 1)', 'top', (1, None)),
    ("return dataTop(tt, 2, arrayNew('a'))", 'top', (2, ['a'])),
    ("return dataTop(tt, 3.0, arrayNew('a', 'b'))", 'top', (3, ['a', 'b'])),
    ("return dataAggregate(tt, objectNew('categories', arrayNew('a'), 'measures', arrayNew(objectNew('field', 'b', 'function', 'count', 'name', 'cnt'))))",
     'aggregate', ([('b', 'count', 'cnt')], ['a'])),
    ("return dataAggregate(tt, objectNew('measures', arrayNew(objectNew('field', 'b', 'function', 'sum'), objectNew('field', 'b', 'function', 'average', 'name', 'avg'))))",
     'aggregate', ([('b', 'sum', 'b'), ('b', 'average', 'avg')], None)),
    ("return dataCalculatedField(tt, 'c', 'b * factor', objectNew('factor', 3))", 'calc', ('c', B('*', V('b'), V('factor')), {'factor': 3})),
    ("return dataJoin(tt, uu, 'a')", 'join', (V('a'), None)),
    ("return dataJoin(tt, uu, 'a', 'b', true)", 'join', (V('a'), V('b'))),
    # name collisions: the script's own global kk = 1 (and gg = 7), the variables argument kk = 2 shadows it; a row field shadows both
    ("kk = 1\nreturn dataFilter(tt, 'a == kk', objectNew('kk', 2))", 'filter', (B('==', V('a'), V('kk')), {'kk': 2}, {'kk': 1})),
    ("kk = 1\nreturn dataFilter(tt, 'a == kk')", 'filter', (B('==', V('a'), V('kk')), None, {'kk': 1})),
    ("kk = 1\ngg = 7\nreturn dataCalculatedField(tt, 'c', '(a + kk) + gg', objectNew('kk', 2))", 'calc',
     ('c', B('+', B('+', V('a'), V('kk')), V('gg')), {'kk': 2}, {'kk': 1, 'gg': 7})),
    ("b = 1\nreturn dataCalculatedField(tt, 'c', 'a + b', objectNew('b', 2, 'arrayLength', 5))", 'calc',
     ('c', B('+', V('a'), V('b')), {'b': 2, 'arrayLength': 5}, {'b': 1})),
    ("kk = 1\nreturn dataJoin(tt, uu, 'a', 'a + kk', false, objectNew('kk', 0))", 'join', (V('a'), B('+', V('a'), V('kk')), {'kk': 0}, {'kk': 1})),
]
_PARSED = {}


def run_script(acc, text, glob):
    bs = load_impl()
    if text not in _PARSED:
        _PARSED[text] = bs.parse_script(text)
    acc.evals += 1
    acc.transitions += 1
    try:
        return True, bs.execute_script(_PARSED[text], {'globals': glob})
    except Exception as exc:  # pylint: disable=broad-exception-caught
        return False, exc_obs(exc)


def check_script(case, acc):
    rows = case['rows']
    table = build_table(rows)
    strings = any(isinstance(r.get('b'), str) for r in table)
    hit = False
    for k, (text, kind, par) in enumerate(SCRIPTS):
        if case.get('variant', k) != k:
            continue
        if kind == 'aggregate' and (not table or (strings and any(func != 'count' for _, func, _ in par[0]))):
            acc.unspecified += 1
            continue
        ok, res = run_script(acc, text, {'tt': build_table(rows), 'uu': build_table(rows)})
        acc.traces += 1
        c2 = dict(case, variant=k, op=text, table=table)
        if not ok:
            acc.violation(c2, 'a result', res, 'execute_script raised')
            continue
        if kind == 'filter':
            d = diff_rows(res, rd.ref_filter(table, *par), 'dataFilter')
        elif kind == 'sort':
            d = diff_rows(res, rd.ref_sort(table, par), 'dataSort')
        elif kind == 'top':
            d = diff_top(res, table, par[0], par[1])
        elif kind == 'aggregate':
            d = diff_aggregate(res, table, par[1], par[0], acc)
        elif kind == 'calc':
            d = diff_rows(res, rd.ref_calculated(table, *par), 'dataCalculatedField')
        else:
            d = diff_join(res, rd.ref_join(table, table, *par), acc)
        if d:
            acc.violation(c2, d[0], canon_flat(res), d[1] + ' (called from a script)')
        if isinstance(res, list) and res:
            hit = True
        acc.outcome((k, len(res) if isinstance(res, list) else repr(res)))
    return hit


def fam_script(arg):
    return run_tables('script', check_script, arg)


# ---------------------------------------------------------------------------------------------------------------------
# family csv: typed tables written by the reference writer and read back by dataParseCSV
# ---------------------------------------------------------------------------------------------------------------------

D1 = datetime.datetime(2024, 2, 29)
D2 = datetime.datetime(2023, 12, 31, 23, 59, 58, 250000)
D3 = datetime.datetime(2021, 7, 4, 12, 30, 0)
ALPHA = {
    'number': [(None, 'null'), (None, 'empty'), (0, 'num'), (1, 'num'), (-2.5, 'num'),
               (2e-05, 'num'), (-1.5e-07, 'num'), (3e+20, 'num')],      # written in exponent notation: 2e-05, -1.5e-07, 3e+20
    'boolean': [(None, 'null'), (None, 'empty'), (True, 'bool'), (False, 'bool')],
    'datetime': [(None, 'null'), (None, 'empty'), (D1, 'date'), (D2, 'iso'), (D3, 'z')],
    'string': [(None, 'null'), ('', 'str'), ('abc', 'str'), ('x,y', 'str'), ('q"r', 'str'), (' lead', 'str'),
               ('2024-02-30', 'str'), ('2024-13-01', 'str'), ('2024-02-30T00:00:00Z', 'str')],
}
TYPES = ['number', 'boolean', 'datetime', 'string']
CSV_FIELDS = ['a', 'b']
CSV_MODES = ['one string', 'line strings', 'script']
CSV_SCRIPT = 'return dataParseCSV(text)'


def csv_size(nrows):
    return sum(sum(len(ALPHA[t]) ** r for t in TYPES) ** 2 for r in range(nrows + 1))


def check_csv(case, acc):
    t1, t2 = case['types']
    col1 = [ALPHA[t1][i] for i in case['cols'][0]]
    col2 = [ALPHA[t2][i] for i in case['cols'][1]]
    rows = [list(pair) for pair in zip(col1, col2)]
    lines = rd.csv_lines(CSV_FIELDS, rows)
    # expected cell values; the empty text is only a null when the column type can be known from another cell
    expect = [[v for v, _ in cells] for cells in rows]
    open_cells = set()
    for ci, col in enumerate((col1, col2)):
        if all(v is None for v, _ in col):
            open_cells.update((ri, ci) for ri, (_, style) in enumerate(col) if style == 'empty')
    acc.unspecified += len(open_cells)
    text = '\n'.join(lines)
    for k, mode in enumerate(CSV_MODES):
        if case.get('variant', k) != k:
            continue
        if mode == 'one string':
            ok, res = call(acc, 'dataParseCSV', [text])
        elif mode == 'line strings':
            ok, res = call(acc, 'dataParseCSV', list(lines))
        else:
            ok, res = run_script(acc, CSV_SCRIPT, {'text': text})
        acc.traces += 1
        c2 = dict(case, variant=k, op=f'dataParseCSV as {mode}', csv=lines)
        want = [dict(zip(CSV_FIELDS, vals)) for vals in expect]
        if not ok:
            acc.violation(c2, canon_flat(want), res, 'dataParseCSV raised instead of returning the typed table')
            continue
        if not isinstance(res, list) or any(not isinstance(r, dict) for r in res):
            acc.violation(c2, canon_flat(want), canon_flat(res), 'dataParseCSV did not return an array of row objects')
            continue
        if len(res) != len(want):
            acc.violation(c2, canon_flat(want), canon_flat(res), f'dataParseCSV returned {len(res)} rows instead of {len(want)}')
            continue
        for ri, (got, vals) in enumerate(zip(res, expect)):
            bad = [f for ci, (f, v) in enumerate(zip(CSV_FIELDS, vals))
                   if (ri, ci) not in open_cells and canon_flat(got.get(f)) != canon_flat(v)]
            if bad:
                f = bad[0]
                acc.violation(c2, canon_flat(want), canon_flat(res),
                              f'row {ri} field {f}: read back {got.get(f)!r} ({rv.rtype(got.get(f))}), written {vals[CSV_FIELDS.index(f)]!r} ({case["types"][CSV_FIELDS.index(f)]} column)')
                break
    cells = col1 + col2
    acc.outcome((t1, t2, tuple(case['cols'][0][:1]), tuple(case['cols'][1][:1])))
    return any((v is not None and not isinstance(v, str)) or (isinstance(v, str) and (rd.csv_quote(v) != v or v[:4] == '2024')) for v, _ in cells)


def csv_shards(nrows, target=30000):
    out = []
    for r in range(nrows + 1):
        for t1 in TYPES:
            for t2 in TYPES:
                n1, n2 = len(ALPHA[t1]) ** r, len(ALPHA[t2]) ** r
                nchunks = max(1, min(n1, -(-n1 * n2 // target)))
                for chunk in split(list(range(n1)), nchunks):
                    out.append((r, t1, t2, chunk[0], chunk[-1] + 1))
    return out


def fam_csv(arg):
    r, t1, t2, lo, hi = arg
    acc = Acc('csv')
    combos1 = itertools.islice(itertools.product(range(len(ALPHA[t1])), repeat=r), lo, hi)
    for c1 in combos1:
        for c2 in itertools.product(range(len(ALPHA[t2])), repeat=r):
            acc.cases += 1
            acc.states += 1
            case = {'types': [t1, t2], 'cols': [list(c1), list(c2)]}
            if check_csv(case, acc):
                acc.nontrivial += 1
            if r == 2 and c1 == (2, 3) and c2 == (3, 0):
                acc.sample({'types': [t1, t2], 'csv': rd.csv_lines(CSV_FIELDS, [list(p) for p in zip([ALPHA[t1][i] for i in c1], [ALPHA[t2][i] for i in c2])])})
    return acc.result()


# ---------------------------------------------------------------------------------------------------------------------
# key-kind alphabet: values that differ in BareScript but that host equality / hashing / text conversion would merge
#   true vs 1, false vs 0, 1 vs '1', true vs 'true', null (= absent) vs 'null', [true] vs [1]
# family keykinds: filter / sort / top / aggregate on tables whose field a is drawn from it
# ---------------------------------------------------------------------------------------------------------------------

KA = [('absent', ABSENT), ('null', None), ('true', True), ('false', False), ('1', 1), ('0', 0), ("'1'", '1'), ("'true'", 'true'),
      ("'null'", 'null'), ('[true]', [True]), ('[1]', [1])]
KB = [('absent', ABSENT), ('1', 1), ('2', 2), ('true', True), ("'1'", '1')]
KB_OPS = [0, 1, 2]                                            # b cells of the keykinds family (numeric measure)
KB_JOIN = {'quick': [0, 1], 'thorough': [0, 1, 3, 4]}         # b cells of the join_keykinds family


def build_krow(cell):
    ia, ib = cell
    row = {}
    va, vb = KA[ia][1], KB[ib][1]
    if va is not ABSENT:
        row['a'] = list(va) if isinstance(va, list) else va
    if vb is not ABSENT:
        row['b'] = vb
    return row


def build_ktable(rows):
    """rows: list of [index into KA, index into KB]. Always builds fresh objects (also fresh arrays)."""
    return [build_krow(c) for c in rows]


def krows(b_cells):
    return [[ia, ib] for ia in range(len(KA)) for ib in b_cells]


MERGE_PAIRS = [('true', '1'), ('1', "'1'"), ('true', "'true'"), ('false', '0'), ('absent', "'null'"), ('null', "'null'"), ('[true]', '[1]')]


def has_merge_pair(labels):
    """Two different BareScript values that a key built with host ==, hash() or text conversion would merge."""
    labels = set(labels)
    return any(x in labels and y in labels for x, y in MERGE_PAIRS)


K_FILTERS = [B('==', V('a'), N(1)), B('==', V('a'), V('b')), V('a')]
K_SORTS = [[]] + [[k] for k in (['a'], ['a', True], ['b'], ['b', True])] + \
          [[k1, k2] for k1 in (['a'], ['a', True], ['b'], ['b', True]) for k2 in (['a'], ['a', True], ['b'], ['b', True])]     # 21
K_TOPS = [(1, ['a']), (2, ['a']), (1, ['a', 'b']), (2, ['b', 'a'])]
K_AGGS = [([('b', 'count', 'b')], ['a']), ([('b', 'sum', 'b')], ['a']), ([('b', 'max', 'top'), ('b', 'average', 'avg')], ['a', 'b'])]
K_OPS = [('filter', x) for x in K_FILTERS] + [('sort', x) for x in K_SORTS] + [('top', x) for x in K_TOPS] + [('aggregate', x) for x in K_AGGS]


def check_keykinds(case, acc):
    rows = case['rows']
    table = build_ktable(rows)
    for k, (kind, par) in enumerate(K_OPS):
        if case.get('variant', k) != k:
            continue
        if kind == 'aggregate' and not table:
            acc.unspecified += 1
            continue
        work = build_ktable(rows)
        if kind == 'filter':
            text = rd.expr_text(par)
            label = f'dataFilter(t, {text!r})'
            ok, res = call(acc, 'dataFilter', [work, text])
            d = ok and diff_rows(res, rd.ref_filter(table, par), 'dataFilter')
        elif kind == 'sort':
            label = f'dataSort(t, {par})'
            ok, res = call(acc, 'dataSort', [work, [list(x) for x in par]])
            d = ok and diff_rows(res, rd.ref_sort(table, par), 'dataSort (stable, order of the value model)')
        elif kind == 'top':
            label = f'dataTop(t, {par[0]}, {par[1]})'
            ok, res = call(acc, 'dataTop', [work, par[0], list(par[1])])
            d = ok and diff_top(res, table, par[0], par[1])
        else:
            model = agg_model(par[0], par[1])
            label = f'dataAggregate(t, {model})'
            ok, res = call(acc, 'dataAggregate', [work, model])
            d = ok and diff_aggregate(res, table, par[1], par[0], acc)
        acc.traces += 1
        c2 = dict(case, variant=k, op=label, table=table)
        if not ok:
            acc.violation(c2, 'a result', res, f'{label.split("(")[0]} raised')
        elif d:
            acc.violation(c2, d[0], canon_flat(res), d[1])
        if k % 5 == 0:
            acc.outcome((k, tkey(res) if ok else res))
    return has_merge_pair(KA[c[0]][0] for c in rows)


def ktable_shards(nrows, nchunks):
    n = len(krows(KB_OPS))
    return [(nrows, first, chunk, ci == 0) for first in range(n) for ci, chunk in enumerate(split(list(range(n)), nchunks))]


def fam_keykinds(arg):
    nrows, first, seconds, with_short = arg
    acc = Acc('keykinds')
    cells = krows(KB_OPS)

    def tables():
        if with_short:
            if first == 0:
                yield []
            yield [cells[first]]
        for n in range(0, nrows - 1):
            for second in seconds:
                for rest in itertools.product(cells, repeat=n):
                    yield [cells[first], cells[second]] + list(rest)
    for rows in tables():
        acc.cases += 1
        acc.states += 1
        if check_keykinds({'rows': rows}, acc):
            acc.nontrivial += 1
        if len(rows) == 2 and rows[0][0] == 2 and rows[1][0] == 4:
            acc.sample({'table': build_ktable(rows), 'operations': 'keykinds'})
    return acc.result()


# ---------------------------------------------------------------------------------------------------------------------
# family join_keykinds: join keys from the key-kind alphabet
# ---------------------------------------------------------------------------------------------------------------------

K_JOINS = [(V('a'), None), (V('a'), V('b'))]


def kjoin_tables(tier):
    cells = krows(KB_JOIN[tier])
    return [[]] + [[r] for r in cells] + [[r1, r2] for r1 in cells for r2 in cells]


def check_join_keykinds(case, acc):
    lrows, rrows = case['left'], case['right']
    left, right = build_ktable(lrows), build_ktable(rrows)
    for k, (le, re_) in enumerate(K_JOINS):
        if case.get('variant', k) != k:
            continue
        args = join_args(build_ktable(lrows), build_ktable(rrows), le, re_, None, 'omitted')
        label = f'dataJoin(l, r, {args[2:]})'
        ok, res = call(acc, 'dataJoin', args)
        blocks = rd.ref_join(left, right, le, re_)
        acc.traces += 1
        c2 = dict(case, variant=k, op=label, left_table=left, right_table=right)
        if not ok:
            acc.violation(c2, canon_flat(rd.join_flatten(blocks, False)), res, 'dataJoin raised')
            continue
        d = diff_join(res, blocks, acc)
        if d:
            acc.violation(c2, d[0], canon_flat(res), d[1])
        acc.outcome((k, len(left), len(right), sum(len(b[1]) for b in blocks if b[0] == 'matched')))
    return has_merge_pair([KA[c[0]][0] for c in lrows + rrows] + [KB[c[1]][0] for c in rrows])


def fam_join_keykinds(arg):
    tier, lefts = arg
    acc = Acc('join_keykinds')
    tables = kjoin_tables(tier)
    for li in lefts:
        for ri, right in enumerate(tables):
            acc.cases += 1
            acc.states += 1
            if check_join_keykinds({'left': tables[li], 'right': right}, acc):
                acc.nontrivial += 1
            if ri == (li * 7 + 3) % len(tables) and len(right) == 2:
                acc.sample({'left': build_ktable(tables[li]), 'right': build_ktable(right), 'operations': 'dataJoin'})
    return acc.result()


# ---------------------------------------------------------------------------------------------------------------------
# family csv_tz: datetime columns read under a process time zone with daylight saving time
# ---------------------------------------------------------------------------------------------------------------------

TZ_ZONES = {'quick': ['America/New_York', 'Australia/Lord_Howe'],
            'thorough': ['America/New_York', 'Australia/Lord_Howe', 'Pacific/Chatham', 'Europe/London']}
TZ_INSTANTS = [datetime.datetime(2024, 1, 15, 12, 0, 0), datetime.datetime(2024, 1, 15, 2, 30, 0),
               datetime.datetime(2024, 7, 15, 12, 0, 0), datetime.datetime(2024, 7, 15, 23, 45, 0, 250000)]      # UTC
TZ_SPELLINGS = ['Z', '+00:00', '-05:00', 'local']
TZ_CELLS = [('null',), ('date', 2024, 1, 15), ('date', 2024, 7, 15)] + [('instant', i, sp) for i in range(len(TZ_INSTANTS)) for sp in TZ_SPELLINGS]   # 19
TZ_SECOND = {'quick': [0, 2, 3, 13, 14], 'thorough': list(range(len(TZ_CELLS)))}
# quick second column: null, the July date, January noon as Z, July noon at -05:00, July noon at the zone's own offset


def tz_cell(cell, zone):
    """-> (text, expected value)"""
    if cell[0] == 'null':
        return 'null', None
    if cell[0] == 'date':
        return f'{cell[1]:04d}-{cell[2]:02d}-{cell[3]:02d}', datetime.datetime(cell[1], cell[2], cell[3])     # local midnight
    instant = TZ_INSTANTS[cell[1]]
    offset = {'Z': 0, '+00:00': 0, '-05:00': -300, 'local': rd.zone_offset_minutes(instant, zone)}[cell[2]]
    return rd.instant_text(instant, offset, cell[2] == 'Z'), rd.zone_local(instant, zone)


def set_zone(zone):
    import os  # pylint: disable=import-outside-toplevel
    import time  # pylint: disable=import-outside-toplevel
    if os.environ.get('TZ') != zone:
        os.environ['TZ'] = zone
        time.tzset()


def check_csv_tz(case, acc):
    zone = case['tz']
    impl()                 # the implementation is imported under the runner's TZ=UTC, as in every other family ...
    set_zone(zone)         # ... and the process time zone changes afterwards (each shard and each replay is its own process)
    cols = [[tz_cell(TZ_CELLS[i], zone) for i in col] for col in case['cols']]
    rows = list(zip(*cols))
    lines = [','.join(CSV_FIELDS)] + [','.join(rd.csv_quote(text) for text, _ in row) for row in rows]
    want = [dict(zip(CSV_FIELDS, [v for _, v in row])) for row in rows]
    text = '\n'.join(lines)
    for k, mode in enumerate(CSV_MODES):
        if case.get('variant', k) != k:
            continue
        if mode == 'one string':
            ok, res = call(acc, 'dataParseCSV', [text])
        elif mode == 'line strings':
            ok, res = call(acc, 'dataParseCSV', list(lines))
        else:
            ok, res = run_script(acc, CSV_SCRIPT, {'text': text})
        acc.traces += 1
        c2 = dict(case, variant=k, op=f'dataParseCSV as {mode} under TZ={zone}', csv=lines)
        if not ok:
            acc.violation(c2, canon_flat(want), res, 'dataParseCSV raised instead of returning the typed table')
        elif not isinstance(res, list) or any(not isinstance(r, dict) for r in res) or len(res) != len(want):
            acc.violation(c2, canon_flat(want), canon_flat(res), 'dataParseCSV did not return one row object per line')
        else:
            for ri, (got, exp) in enumerate(zip(res, want)):
                bad = [f for f in CSV_FIELDS if canon_flat(got.get(f)) != canon_flat(exp[f])]
                if bad:
                    acc.violation(c2, canon_flat(want), canon_flat(res),
                                  f'row {ri} field {bad[0]}: read back {got.get(bad[0])!r}, the text {lines[ri + 1].split(",")[CSV_FIELDS.index(bad[0])]} '
                                  f'is {exp[bad[0]]!r} local time in {zone}')
                    break
    acc.outcome((zone, tuple(case['cols'][0][:1]), tuple(case['cols'][1][:1])))
    months = {TZ_INSTANTS[c[1]].month if c[0] == 'instant' else c[2] for col in case['cols'] for c in (TZ_CELLS[i] for i in col) if c[0] != 'null'}
    return len(months) > 1      # the table holds a January and a July datetime (different offsets in force)


def csv_tz_size(tier, nrows):
    return len(TZ_ZONES[tier]) * sum((len(TZ_CELLS) * len(TZ_SECOND[tier])) ** r for r in range(nrows + 1))


def csv_tz_shards(tier, nrows):
    out = []
    for zone in TZ_ZONES[tier]:
        for r in range(nrows + 1):
            combos = len(TZ_CELLS) ** r
            for chunk in split(list(range(combos)), max(1, min(combos, (combos * len(TZ_SECOND[tier]) ** r) // 8000))):
                out.append((tier, zone, r, chunk[0], chunk[-1] + 1))
    return out


def fam_csv_tz(arg):
    tier, zone, r, lo, hi = arg
    acc = Acc('csv_tz')
    for c1 in itertools.islice(itertools.product(range(len(TZ_CELLS)), repeat=r), lo, hi):
        for c2 in itertools.product(TZ_SECOND[tier], repeat=r):
            acc.cases += 1
            acc.states += 1
            if check_csv_tz({'tz': zone, 'cols': [list(c1), list(c2)]}, acc):
                acc.nontrivial += 1
            if r == 1 and c1 == (9,) and c2 == (14,):
                acc.sample({'tz': zone, 'csv': ['a,b', ','.join(tz_cell(TZ_CELLS[i], zone)[0] for i in (9, 14))],
                            'expected': [repr(tz_cell(TZ_CELLS[i], zone)[1]) for i in (9, 14)]})
    return acc.result()


# ---------------------------------------------------------------------------------------------------------------------
# family csv_edge: well-formed date-like cells at the ends of the calendar. Where the local time of the process zone does
# not exist in years 1..9999 the text merely resembles a date: it stays a string and the parse goes on.
# ---------------------------------------------------------------------------------------------------------------------

EDGE_ZONES = {'quick': ['UTC', 'America/New_York', 'Australia/Lord_Howe'],
              'thorough': ['UTC', 'America/New_York', 'Australia/Lord_Howe', 'Pacific/Chatham', 'Europe/London']}
EDGE_CELLS = [None, '0001-01-01T00:00:00+23:59', '9999-12-31T23:59:59-23:59', '9999-12-31T23:59:59Z', '0001-01-01T00:00:00Z',
              '2024-07-15T12:00:00Z', 'abc']
EDGE_SECOND = [(None, 'null'), (1, 'num')]
EDGE_ROWS = 3


def edge_value(cell, zone):
    """-> expected value of the cell when read under `zone`: null, a datetime, or the text itself."""
    if cell is None or cell == 'abc':
        return cell
    local = rd.edge_datetime(cell, zone)
    return cell if local is None else local


def check_csv_edge(case, acc):
    zone = case['tz']
    impl()
    set_zone(zone)
    col1 = [EDGE_CELLS[i] for i in case['cols'][0]]
    col2 = [EDGE_SECOND[i] for i in case['cols'][1]]
    values = [edge_value(c, zone) for c in col1]
    kinds = {rv.rtype(v) for v in values if v is not None}
    hit = any(isinstance(v, str) and v != 'abc' for v in values)
    if len(kinds) > 1 or any(v is rd.UNSPECIFIED for v in values):
        acc.unspecified += 1        # a column mixing datetimes and strings is not a typed table (which type wins is not documented)
        return hit
    lines = [','.join(CSV_FIELDS)] + [','.join([rd.csv_quote('null' if c is None else c), rd.csv_quote(rd.cell_text(v, st))])
                                      for c, (v, st) in zip(col1, col2)]
    want = [{'a': v, 'b': b} for v, (b, _) in zip(values, col2)]
    text = '\n'.join(lines)
    for k, mode in enumerate(CSV_MODES):
        if case.get('variant', k) != k:
            continue
        if mode == 'one string':
            ok, res = call(acc, 'dataParseCSV', [text])
        elif mode == 'line strings':
            ok, res = call(acc, 'dataParseCSV', list(lines))
        else:
            ok, res = run_script(acc, CSV_SCRIPT, {'text': text})
        acc.traces += 1
        c2 = dict(case, variant=k, op=f'dataParseCSV as {mode} under TZ={zone}', csv=lines)
        if not ok:
            acc.violation(c2, canon_flat(want), res, 'dataParseCSV raised instead of keeping the date-like text as a string')
        elif not isinstance(res, list) or any(not isinstance(r, dict) for r in res) or len(res) != len(want):
            acc.violation(c2, canon_flat(want), canon_flat(res), 'dataParseCSV did not return one row object per line (the parse was aborted)')
        else:
            for ri, (got, exp) in enumerate(zip(res, want)):
                bad = [f for f in CSV_FIELDS if canon_flat(got.get(f)) != canon_flat(exp[f])]
                if bad:
                    acc.violation(c2, canon_flat(want), canon_flat(res), f'row {ri} field {bad[0]}: read back {got.get(bad[0])!r}, expected {exp[bad[0]]!r} in {zone}')
                    break
    acc.outcome((zone, tuple(repr(v) for v in values[:2])))
    return hit


def csv_edge_size(tier):
    return len(EDGE_ZONES[tier]) * sum((len(EDGE_CELLS) * len(EDGE_SECOND)) ** r for r in range(EDGE_ROWS + 1))


def fam_csv_edge(arg):
    zone, r = arg
    acc = Acc('csv_edge')
    for c1 in itertools.product(range(len(EDGE_CELLS)), repeat=r):
        for c2 in itertools.product(range(len(EDGE_SECOND)), repeat=r):
            acc.cases += 1
            acc.states += 1
            if check_csv_edge({'tz': zone, 'cols': [list(c1), list(c2)]}, acc):
                acc.nontrivial += 1
            if r == 2 and c1 == (3, 4) and c2 == (1, 0):
                acc.sample({'tz': zone, 'csv': ['a,b', f'{EDGE_CELLS[3]},1', f'{EDGE_CELLS[4]},null'],
                            'expected_a': [repr(edge_value(EDGE_CELLS[i], zone)) for i in (3, 4)]})
    return acc.result()


# ---------------------------------------------------------------------------------------------------------------------
# family csv_case: string cells that are case variants / look-alikes of typed literals. Only the exact texts true, false,
# null and finite decimal numbers are typed; True, FALSE, TRUE, Null, NULL, NaN, Infinity, -inf are strings.
# ---------------------------------------------------------------------------------------------------------------------

CASE_CELLS = [None, 'abc', 'true', 'false', 'True', 'FALSE', 'TRUE', 'Null', 'NULL', 'NaN', 'Infinity', '-inf']
CASE_SECOND = [(None, 'null'), (False, 'bool')]


def check_csv_case(case, acc):
    col1 = [CASE_CELLS[i] for i in case['cols'][0]]
    col2 = [CASE_SECOND[i] for i in case['cols'][1]]
    present = [c for c in col1 if c is not None]
    typed = [c in ('true', 'false') for c in present]
    variants = any(c not in ('abc', 'true', 'false') for c in present)
    if any(typed) and not all(typed):
        # true/false next to other texts: a boolean column with an invalid cell or a string column? Not documented (the first
        # non-null cell decides in the code; validate_data documents TypeError for invalid data) - nothing is called or compared.
        acc.unspecified += 1
        return False
    values = [(c == 'true') if c in ('true', 'false') else c for c in col1]
    lines = [','.join(CSV_FIELDS)] + [','.join([rd.csv_quote('null' if c is None else c), rd.csv_quote(rd.cell_text(v, st))])
                                      for c, (v, st) in zip(col1, col2)]
    want = [{'a': v, 'b': b} for v, (b, _) in zip(values, col2)]
    text = '\n'.join(lines)
    for k, mode in enumerate(CSV_MODES):
        if case.get('variant', k) != k:
            continue
        if mode == 'one string':
            ok, res = call(acc, 'dataParseCSV', [text])
        elif mode == 'line strings':
            ok, res = call(acc, 'dataParseCSV', list(lines))
        else:
            ok, res = run_script(acc, CSV_SCRIPT, {'text': text})
        acc.traces += 1
        c2 = dict(case, variant=k, op=f'dataParseCSV as {mode}', csv=lines)
        if not ok:
            acc.violation(c2, canon_flat(want), res, 'dataParseCSV raised on a string column of literal look-alikes')
        elif not isinstance(res, list) or any(not isinstance(r, dict) for r in res) or len(res) != len(want):
            acc.violation(c2, canon_flat(want), canon_flat(res), 'dataParseCSV did not return one row object per line (the parse was aborted)')
        else:
            for ri, (got, exp) in enumerate(zip(res, want)):
                bad = [f for f in CSV_FIELDS if canon_flat(got.get(f)) != canon_flat(exp[f])]
                if bad:
                    acc.violation(c2, canon_flat(want), canon_flat(res),
                                  f'row {ri} field {bad[0]}: read back {got.get(bad[0])!r} ({rv.rtype(got.get(bad[0]))}), expected {exp[bad[0]]!r} ({rv.rtype(exp[bad[0]])})')
                    break
    acc.outcome(tuple(repr(v) for v in values[:2]))
    return variants


def csv_case_size(nrows):
    return sum((len(CASE_CELLS) * len(CASE_SECOND)) ** r for r in range(nrows + 1))


def fam_csv_case(arg):
    r, firsts = arg
    acc = Acc('csv_case')
    for first in firsts:
        for rest in itertools.product(range(len(CASE_CELLS)), repeat=max(r - 1, 0)):
            c1 = ([first] + list(rest)) if r else []
            for c2 in itertools.product(range(len(CASE_SECOND)), repeat=r):
                acc.cases += 1
                acc.states += 1
                if check_csv_case({'cols': [c1, list(c2)]}, acc):
                    acc.nontrivial += 1
                if r == 2 and c1 == [4, 9] and c2 == (1, 0):
                    acc.sample({'csv': ['a,b', 'True,false', 'NaN,null'], 'expected_a': ['True', 'NaN'], 'expected_type': 'string'})
    return acc.result()


def csv_case_shards(nrows):
    return [(0, [0])] + [(r, [first]) for r in range(1, nrows + 1) for first in range(len(CASE_CELLS))]


# ---------------------------------------------------------------------------------------------------------------------
# family csv_dates: the month-end boundary grid. A text that names a day which exists (reference civil calendar) is a
# datetime; a text with a valid month and a day within the month's MAXIMUM length that does not exist in that year
# (2023-02-29, 1900-02-29), day max+1, year 0000 or a 5-digit year merely resembles a date: it stays a string, nothing
# raises, the rest of the table is intact. Process zone UTC (runner).
# ---------------------------------------------------------------------------------------------------------------------

DATE_YEARS = {'quick': [2024, 2023, 1900, 2000, 0, 9999], 'thorough': [2024, 2023, 1900, 2000, 0, 9999, 2100, 1600, 4, 100]}
DATE_FORMS = ['date', 'T10:00:00Z', 'T10:00:00+05:30']
DATE_EXTRA = ['10000-01-01', '10000-01-01T10:00:00Z']
DATE_OTHER = [None, 'abc', '2023-02-29', '2024-02-29']       # the other cell of a two-row column: null, string, look-alike, real date
DATE_SECOND = [(None, 'null'), (1, 'num')]
DATE_MODES = CSV_MODES + ['dataValidate']


def date_grid(tier):
    """(text, expected value) - the expected value is a datetime when the day exists, else the text itself."""
    out = []
    for year in DATE_YEARS[tier]:
        for month in range(1, 13):
            for day in (rd.MONTH_MAX[month - 1] - 1, rd.MONTH_MAX[month - 1], rd.MONTH_MAX[month - 1] + 1):
                exists = rd.civil_exists(year, month, day)
                base = f'{year:04d}-{month:02d}-{day:02d}'
                for form in DATE_FORMS:
                    text = base if form == 'date' else base + form
                    if not exists:
                        out.append((text, text))
                    elif form == 'date':
                        out.append((text, datetime.datetime(year, month, day)))              # local midnight
                    elif form == 'T10:00:00Z':
                        out.append((text, datetime.datetime(year, month, day, 10, 0)))        # process zone is UTC
                    else:
                        out.append((text, datetime.datetime(year, month, day, 4, 30)))        # 10:00 at +05:30 = 04:30 UTC
    return out + [(t, t) for t in DATE_EXTRA]


def date_other(i):
    text = DATE_OTHER[i]
    if text == '2024-02-29':
        return text, datetime.datetime(2024, 2, 29)
    return text, text


def check_csv_dates(case, acc):
    """case: {'cells': [[text, expected-kind]...]} is rebuilt from 'tier', 'grid' (index), 'pos' (None: one row; 0/1: position of
    the grid cell in a two-row column), 'other' (index into DATE_OTHER), 'b' (indices into DATE_SECOND)."""
    if case['tier'] not in _GRID:
        _GRID[case['tier']] = date_grid(case['tier'])
    grid = _GRID[case['tier']]
    cell = grid[case['grid']]
    if case['pos'] is None:
        col1 = [cell]
    else:
        col1 = [cell, date_other(case['other'])] if case['pos'] == 0 else [date_other(case['other']), cell]
    col2 = [DATE_SECOND[i] for i in case['b']]
    values = [v for _, v in col1]
    hit = isinstance(cell[1], str)
    if len({rv.rtype(v) for v in values if v is not None}) > 1:
        acc.unspecified += 1        # a real date next to a string: not a typed column (the first non-null cell decides in the code)
        return hit
    lines = [','.join(CSV_FIELDS)] + [','.join([rd.csv_quote('null' if t is None else t), rd.csv_quote(rd.cell_text(v, st))])
                                      for (t, _), (v, st) in zip(col1, col2)]
    want = [{'a': v, 'b': b} for v, (b, _) in zip(values, col2)]
    text = '\n'.join(lines)
    for k, mode in enumerate(DATE_MODES):
        if case.get('variant', k) != k:
            continue
        if mode == 'one string':
            ok, res = call(acc, 'dataParseCSV', [text])
        elif mode == 'line strings':
            ok, res = call(acc, 'dataParseCSV', list(lines))
        elif mode == 'script':
            ok, res = run_script(acc, CSV_SCRIPT, {'text': text})
        else:
            data = [{'a': 'null' if t is None else t, 'b': rd.cell_text(v, st)} for (t, _), (v, st) in zip(col1, col2)]
            ok, res = call(acc, 'dataValidate', [data, True])
        acc.traces += 1
        c2 = dict(case, variant=k, op=f'{"dataValidate(rows, true)" if mode == "dataValidate" else "dataParseCSV as " + mode}', csv=lines)
        if not ok:
            acc.violation(c2, canon_flat(want), res, 'raised instead of keeping the date-like text as a string')
        elif not isinstance(res, list) or any(not isinstance(r, dict) for r in res) or len(res) != len(want):
            acc.violation(c2, canon_flat(want), canon_flat(res), 'did not return one row object per line (the parse was aborted)')
        else:
            for ri, (got, exp) in enumerate(zip(res, want)):
                bad = [f for f in CSV_FIELDS if canon_flat(got.get(f)) != canon_flat(exp[f])]
                if bad:
                    acc.violation(c2, canon_flat(want), canon_flat(res),
                                  f'row {ri} field {bad[0]}: read back {got.get(bad[0])!r} ({rv.rtype(got.get(bad[0]))}), expected {exp[bad[0]]!r} ({rv.rtype(exp[bad[0]])})')
                    break
    acc.outcome((rv.rtype(cell[1]), case['pos'], case.get('other')))
    return hit


_GRID = {}


def csv_dates_size(tier):
    n = len(date_grid(tier))
    return n * len(DATE_SECOND) + 2 * n * len(DATE_OTHER) * len(DATE_SECOND) ** 2


def fam_csv_dates(arg):
    tier, cells = arg
    acc = Acc('csv_dates')
    for gi in cells:
        cases = [{'tier': tier, 'grid': gi, 'pos': None, 'other': None, 'b': [b]} for b in range(len(DATE_SECOND))]
        cases += [{'tier': tier, 'grid': gi, 'pos': pos, 'other': o, 'b': [b1, b2]} for pos in (0, 1) for o in range(len(DATE_OTHER))
                  for b1 in range(len(DATE_SECOND)) for b2 in range(len(DATE_SECOND))]
        for case in cases:
            acc.cases += 1
            acc.states += 1
            if check_csv_dates(case, acc):
                acc.nontrivial += 1
        if gi % 97 == 13:
            acc.sample({'text': date_grid(tier)[gi][0], 'expected': repr(date_grid(tier)[gi][1])})
    return acc.result()


# ---------------------------------------------------------------------------------------------------------------------
# family csv_backslash: a backslash is an ordinary character of a CSV cell (RFC 4180 has no escape character; the
# reference writer quotes with doubled quotes only). Three string columns so that a cell ending in a backslash sits in
# the first, the middle and the last column; header names with backslashes too.
# ---------------------------------------------------------------------------------------------------------------------

BS = '\\'
BS_CELLS = ['x', 'a' + BS + 'b', 'a' + BS, 'a' + BS + BS + 'b', 'a' + BS + ',b', 'a' + BS + '"b', 'a' + BS + 'n', BS, BS + BS]
BS_LATER = {'quick': [0, 1, 2], 'thorough': [0, 1, 2, 4, 7]}      # cells of the second row (indices into BS_CELLS)
BS_HEADERS = [['a', 'b', 'c'], ['h' + BS + 'a', 'k' + BS, BS + 'c']]


def check_csv_backslash(case, acc):
    fields = BS_HEADERS[case['header']]
    rows = [[BS_CELLS[i] for i in row] for row in case['rows']]
    lines = [','.join(rd.csv_quote(name) for name in fields)] + [','.join(rd.csv_quote(c) for c in row) for row in rows]
    want = [dict(zip(fields, row)) for row in rows]
    text = '\n'.join(lines)
    for k, mode in enumerate(CSV_MODES):
        if case.get('variant', k) != k:
            continue
        if mode == 'one string':
            ok, res = call(acc, 'dataParseCSV', [text])
        elif mode == 'line strings':
            ok, res = call(acc, 'dataParseCSV', list(lines))
        else:
            ok, res = run_script(acc, CSV_SCRIPT, {'text': text})
        acc.traces += 1
        c2 = dict(case, variant=k, op=f'dataParseCSV as {mode}', csv=lines)
        if not ok:
            acc.violation(c2, canon_flat(want), res, 'dataParseCSV raised')
        elif not isinstance(res, list) or any(not isinstance(r, dict) for r in res) or len(res) != len(want):
            acc.violation(c2, canon_flat(want), canon_flat(res), 'dataParseCSV did not return one row object per line')
        elif canon_flat(res) != canon_flat(want):
            ri = next(i for i, (g, w) in enumerate(zip(res, want)) if canon_flat(g) != canon_flat(w))
            acc.violation(c2, canon_flat(want), canon_flat(res), f'row {ri}: read back {res[ri]!r}, written {want[ri]!r} (a backslash is an ordinary character)')
    acc.outcome((case['header'], tuple(case['rows'][0]) if case['rows'] else ()))
    return any(BS in c for row in rows for c in row)


def csv_backslash_size(tier):
    n, m = len(BS_CELLS) ** 3, len(BS_LATER[tier]) ** 3
    return len(BS_HEADERS) * (1 + n + n * m)


def fam_csv_backslash(arg):
    tier, header, firsts = arg
    acc = Acc('csv_backslash')
    cases = []
    if firsts[0] == 0:
        cases.append([])
    for first in firsts:
        for rest in itertools.product(range(len(BS_CELLS)), repeat=2):
            row1 = [first] + list(rest)
            cases.append([row1])
            cases.extend([row1, list(row2)] for row2 in itertools.product(BS_LATER[tier], repeat=3))
    for rows in cases:
        acc.cases += 1
        acc.states += 1
        if check_csv_backslash({'header': header, 'rows': rows}, acc):
            acc.nontrivial += 1
        if rows == [[2, 1, 5]]:
            acc.sample({'header': BS_HEADERS[header], 'csv_row': ','.join(rd.csv_quote(BS_CELLS[i]) for i in rows[0]), 'cells': [BS_CELLS[i] for i in rows[0]]})
    return acc.result()


# ---------------------------------------------------------------------------------------------------------------------
# families
# ---------------------------------------------------------------------------------------------------------------------

def families(tier):
    quick = tier == 'quick'
    nrows = 3 if quick else 4
    nchunks = 2 if quick else 9
    srows = 2 if quick else 3
    crows = 2 if quick else 3
    tshards = table_shards(nrows, nchunks)
    nt = ntables(nrows)
    kt = len(key_tables(tier))
    nn = len(name_tables(tier))
    nkj = len(kjoin_tables(tier))
    cells = ', '.join(label for label, _ in CELLS)
    tb = f'every table of <= {nrows} rows over fields a,b with cells from {{{cells}}}'
    return [
        Family('filter', fam_filter, tshards, f'{tb} x {len(FILTERS)} filter expressions (one with variables)', expected=nt),
        Family('sort', fam_sort, tshards, f'{tb} x all {len(SORTS)} key lists of length <= 2 over a,b with direction omitted/false/true', expected=nt),
        Family('top', fam_top, tshards, f'{tb} x count 1,2,3 as int and as float x categories none,[a],[a,b] ({len(TOPS)} calls)', expected=nt),
        Family('aggregate', fam_aggregate, tshards,
               f'{tb} x 6 functions on measure b x categories none,[a] + one call with two named measures ({len(AGGS)} calls); '
               'non-count functions only on tables whose non-null b cells are numbers', expected=nt),
        Family('aggregate_num', fam_aggregate_num, num_shards(nrows, 1 if quick else 6),
               f'every table of <= {nrows} rows with a from {{absent, 1, 2}} and measure b from {{absent, null, 100000001, 100000002, 100000003, '
               f'0.1, 0.2, 0.3, 1e+15, -1e+15}} x 6 functions x categories none,[a]; exact (fractions) reference with tolerances a sound '
               'float evaluation meets', expected=sum(len(num_rows()) ** k for k in range(nrows + 1))),
        Family('scope', fam_scope, tshards,
               f'{tb} x {len(SCOPES)} calls of dataFilter / dataCalculatedField / dataJoin (self-join) whose expressions use names that are '
               f'a row field, a key of the variables argument and a global of the caller ({SCOPE_GLOBALS}) at once', expected=nt),
        Family('calc', fam_calc, tshards, f'{tb} x {len(CALCS)} calculated fields (new field, overwritten field, variables)', expected=nt),
        Family('join_keys', fam_join_keys, [(tier, c) for c in split(list(range(kt)), 64)],
               f'every ordered pair of the {kt} tables of <= 2 rows over a,b with cells a: {[CELLS[i][0] for i in JOIN_CELLS[tier][0]]}, '
               f'b: {[CELLS[i][0] for i in JOIN_CELLS[tier][1]]} x {len(JOINS)} '
               'key/right-expression/flag/variables variants', expected=kt * kt),
        Family('join_names', fam_join_names, [(tier, c) for c in split(list(range(nn)), 48)],
               f'every ordered pair of the {nn} tables of <= 2 rows whose rows have a in {"absent,1" if quick else "absent,1,2"} and any subset of a2,a3,b '
               f'(distinct marker values) x {len(NAME_JOINS)} key/flag variants', expected=nn * nn),
        Family('script', fam_script, table_shards(srows, 1 if quick else 4),
               f'every table of <= {srows} rows (same cells) as a script global x {len(SCRIPTS)} parsed scripts (counts are float literals)',
               expected=ntables(srows)),
        Family('csv', fam_csv, csv_shards(crows),
               f'every typed table of <= {crows} rows x 2 columns, column types {TYPES}, cell alphabets of sizes '
               f'{[len(ALPHA[t]) for t in TYPES]} x 3 reading modes', expected=csv_size(crows)),
        Family('keykinds', fam_keykinds, ktable_shards(nrows, 2 if quick else 11),
               f'every table of <= {nrows} rows with a from {{{", ".join(x for x, _ in KA)}}} and b from {{absent, 1, 2}} x {len(K_FILTERS)} filters, '
               f'{len(K_SORTS)} sort key lists, {len(K_TOPS)} dataTop calls, {len(K_AGGS)} aggregations with a as category',
               expected=sum(len(krows(KB_OPS)) ** k for k in range(nrows + 1))),
        Family('join_keykinds', fam_join_keykinds, [(tier, c) for c in split(list(range(nkj)), 64)],
               f'every ordered pair of the {nkj} tables of <= 2 rows with a from the same key-kind alphabet and b from '
               f'{[KB[i][0] for i in KB_JOIN[tier]]} x keys: a, left a = right b', expected=nkj * nkj),
        Family('csv_tz', fam_csv_tz, csv_tz_shards(tier, 2),
               f'process time zones {TZ_ZONES[tier]} (set with time.tzset at the start of the shard): every table of <= 2 rows x 2 datetime '
               f'columns, first column from {len(TZ_CELLS)} cells (null, 2 date texts, 4 instants in January/July x spellings {TZ_SPELLINGS}), '
               f'second from {len(TZ_SECOND[tier])} of them x 3 reading modes', expected=csv_tz_size(tier, 2)),
        Family('csv_edge', fam_csv_edge, [(z, r) for z in EDGE_ZONES[tier] for r in range(EDGE_ROWS + 1)],
               f'process time zones {EDGE_ZONES[tier]}: every table of <= {EDGE_ROWS} rows, column a from {len(EDGE_CELLS)} cells (null, 4 well-formed '
               'date-time texts at the ends of the calendar, a valid date-time, abc), column b from {null, 1} x 3 reading modes; per zone '
               'the reference says datetime or string', expected=csv_edge_size(tier)),
        Family('csv_case', fam_csv_case, csv_case_shards(nrows),
               f'every table of <= {nrows} rows, column a from {CASE_CELLS[1:]} and null, column b from {{null, false}} x 3 reading modes; '
               'columns mixing true/false with other texts are counted UNSPECIFIED', expected=csv_case_size(nrows)),
        Family('csv_dates', fam_csv_dates, [(tier, c) for c in split(list(range(len(date_grid(tier)))), 24)],
               f'month-end grid: years {DATE_YEARS[tier]} x 12 months x days max-1, max, max+1 (max = the longest the month ever gets) x forms '
               f'{DATE_FORMS} + {DATE_EXTRA} = {len(date_grid(tier))} texts; each alone, and as first / later cell of a two-row column whose other cell '
               f'is one of {DATE_OTHER}; column b from {{null, 1}}; read by dataParseCSV (3 modes) and dataValidate(rows, true)',
               expected=csv_dates_size(tier)),
        Family('csv_backslash', fam_csv_backslash, [(tier, h, [f]) for h in range(len(BS_HEADERS)) for f in range(len(BS_CELLS))],
               f'every table of <= 2 rows x 3 string columns, first row from {len(BS_CELLS)} cells (x, backslash in the middle, at the end, doubled, '
               f'before a comma, before a quote, backslash+n, a lone backslash, two backslashes), second row from {len(BS_LATER[tier])} of them, '
               f'x {len(BS_HEADERS)} header lists (plain names, names with backslashes) x 3 reading modes', expected=csv_backslash_size(tier)),
    ]


_CHECKS = {'filter': check_filter, 'sort': check_sort, 'top': check_top, 'aggregate': check_aggregate, 'calc': check_calc,
           'join_keys': check_join_keys, 'join_names': check_join_names, 'script': check_script, 'csv': check_csv,
           'scope': check_scope, 'aggregate_num': check_aggregate_num, 'keykinds': check_keykinds, 'join_keykinds': check_join_keykinds, 'csv_tz': check_csv_tz, 'csv_edge': check_csv_edge, 'csv_case': check_csv_case, 'csv_dates': check_csv_dates, 'csv_backslash': check_csv_backslash}


def replay(family, case):
    acc = Acc(family)
    keep = {k: v for k, v in case.items() if k in ('rows', 'left', 'right', 'types', 'cols', 'variant', 'tz', 'tier', 'grid', 'pos', 'other', 'b', 'header')}
    _CHECKS[family](keep, acc)
    res = acc.result()
    return {'differs': bool(res['nviol'] or res['nknown']), 'violations': res['violations'] + res['known_violations'],
            'unspecified': res['unspecified']}
