"""C03 Expression evaluation follows the typed operator semantics (DESIGN 4, C03; appendix A.2)."""

import copy
import datetime
import itertools
import math
import re

from ..common import canon, has_host, load_impl
from ..engine.shard import Acc, Family, split
from ..gen import exprs as gx
from ..ref import expr as rx
from ..ref import values as rv

LEVEL = 'model_checking'
RULE = ('matrix: every (operator, left, right) over the 14 binary operators and the operand pool, and every (unary operator, '
        'operand), evaluated three ways (evaluate_expression with operands in globals; with operands in locals; as the '
        'script "return va op vb") and compared with the reference operator table; effects: every expression tree to the '
        'node bound over {&&, ||, +, <, ==, !, group, if/1..3, ff/2 script call, arrayNew/2} whose leaves are effect calls '
        'tt(i) reading a tape over {false, true, 0, \'a\'}; a stateless explorer extends the tape at every read position '
        'with every alternative, so all leaf valuations are executed; result, order of leaf evaluations and number of tape '
        'reads are compared with the reference evaluator on the same tape (state = decision-tree node, transition = tape '
        'decision, trace = complete execution); order: the same explorer over all 14 binary and both unary operators, group, if/1..3 and '
        'host/script/library calls with 1..3 arguments as node kinds, leaves tt(i) or a read of the global gc that every tt call '
        'increments (tape over {false, 2, \'a\', 0}; where an operator result is '
        'UNSPECIFIED only order and number of leaf evaluations are compared); callee: the same explorer over calls of an unbound name '
        '(1..3 arguments) and of a name bound to null, whose arguments must all be evaluated, in order, before the run fails '
        'with BareScriptRuntimeError, plus a leaf rebind() that re-binds a called name; alias: every expression built-in x every argument tuple of arity <= 3 over a '
        '12-value pool against the library function it is documented to alias; shadow: a global or local binding wins over '
        'every built-in; libshadow: two-step history on one globals object - bind the aliased library NAME to a script function / host '
        'function / value / null, then the built-in must still give the stock library function\'s result; keywords: expressions over null/true/false '
        '(alone, as operands, call arguments, if() condition and branches) evaluated while a variable of the keyword\'s name is bound '
        '(globals / locals / both / script assignment / function parameter) - the keyword is the constant regardless; negzero: zero-valued '
        'expressions under sign-sensitive consumers - results distinguish -0.0 from 0.0 (IEEE: -(0.0) = -0.0, 0 * -1 = -0.0, 0 - 0 = 0.0). Non-trivial: a matrix cell whose result is not null; a tree where some valuation leaves a leaf '
        'unevaluated; an order tree with at least two leaves; an alias call that returns a non-null value; a shadowed name whose built-in accepts the argument 1; a libshadow case whose user binding is callable and would '
        'give a different result.')
ASSUMPTIONS = [
    'appendix A.2 operator table; numbers are doubles and exclude booleans; the sign of a zero result IS compared (IEEE), except that a '
    'zero held in an integer carrier (host int operands, e.g. int 0 * int -1, -(int 0)) has no sign: those results are UNSPECIFIED',
    'UNSPECIFIED (skipped, counted): division/modulo by zero, modulo with operands of different sign, non-finite or non-real '
    'results, integer results beyond 2**53, datetime shifts by a fraction of a millisecond or outside year 1..9999, '
    'sub-millisecond datetime differences',
    'process time zone is UTC (fixed by the runner); a date and the datetime of its midnight are the same value',
    'in an UNSPECIFIED cell the value is not compared but must still be a BareScript value (no host object such as complex)',
    'datetime text: milliseconds truncated; for 0 < microsecond < 1000 an all-zero millisecond field may be printed (.000) or omitted',
    'the alias table is written by hand from the library documentation (spreadsheet name -> library function with that '
    'documented meaning); now/today/rand are only called and type-checked',
    'a script function called through evaluate_expression needs options["statementCount"]; the harness provides it',
]

BINARY = ['+', '-', '*', '/', '%', '**', '==', '!=', '<', '<=', '>', '>=', '&&', '||']    # simplest first
assert sorted(BINARY) == sorted(gx.OPS14)
UNARY = ['!', '-']
DOMAIN = [False, True, 0, 'a']
_CACHE = {}


# ---------------------------------------------------------------------------------------------------------------------
# observations


def obs(value, tags=None):
    """Language-level observation of a value: 1 == 1.0, true != 1, -0.0 differs from 0.0 (an integer 0 is +0), date-vs-midnight is dropped,
    functions are identified by harness tag (pool label) or identity."""
    if value is None or isinstance(value, (bool, str)):
        return value
    if isinstance(value, int):
        return ('n', value)
    if isinstance(value, float):
        if value != value:  # pylint: disable=comparison-with-itself
            return ('n', 'nan')
        if value in (float('inf'), float('-inf')):
            return ('n', repr(value))
        if value == 0:
            return ('n', 0, '-0') if math.copysign(1.0, value) < 0 else ('n', 0)      # the sign of zero is observable
        if value == int(value):
            return ('n', int(value))
        return ('n', value)
    if isinstance(value, datetime.date):
        return ('d', rv.local_naive(value).isoformat())
    if isinstance(value, list):
        return ('a', tuple(obs(v, tags) for v in value))
    if isinstance(value, dict):
        return ('o', tuple(sorted((str(k), obs(v, tags)) for k, v in value.items())))
    if isinstance(value, rv.REGEX_TYPE):
        return ('r', value.pattern, value.flags)
    if callable(value):
        return ('f', (tags or {}).get(id(value), id(value)))
    return ('host', type(value).__name__, repr(value)[:60])


def guarded(func, *args):
    try:
        return ('value', func(*args))
    except Exception as exc:  # pylint: disable=broad-exception-caught
        return ('raise', type(exc).__name__, str(exc)[:120])


def script_function(name, source):
    """A function value defined by a script (what `function name(...)` binds)."""
    bs = load_impl()
    glob = {}
    bs.execute_script(bs.parse_script(source), {'globals': glob})
    return glob[name]


# ---------------------------------------------------------------------------------------------------------------------
# (a) operator matrix


def pool(tier):
    if ('pool', tier) not in _CACHE:
        fn = script_function('sf', 'function sf(x):\n    return x\nendfunction\n')
        values = gx.matrix_pool(tier, fn)
        _CACHE[('pool', tier)] = (values, {id(v): label for label, v in values if callable(v)})
    return _CACHE[('pool', tier)]


def op_script(op, unary):
    key = ('script', op, unary)
    if key not in _CACHE:
        bs = load_impl()
        _CACHE[key] = bs.parse_script(f'return {op}va\n' if unary else f'return va {op} vb\n')
    return _CACHE[key]


def check_matrix(case, acc):
    bs = load_impl()
    values, tags = pool(case['tier'])
    op, i, j = case['op'], case['i'], case.get('j')
    unary = j is None
    la, a = values[i]
    lb, b = values[j] if not unary else (None, None)
    case = dict(case, labels=[la, lb], text=f'{op}{la}' if unary else f'{la} {op} {lb}')
    if unary:
        model = {'unary': {'op': op, 'expr': {'variable': 'va'}}}
    else:
        model = {'binary': {'op': op, 'left': {'variable': 'va'}, 'right': {'variable': 'vb'}}}
    want = rx.evaluate(model, {'va': a, 'vb': b})
    acc.states += 1
    runs = [
        ('evaluate_expression, operands in globals', guarded(bs.evaluate_expression, model, {'globals': {'va': a, 'vb': b}}, None, True)),
        ('evaluate_expression, operands in locals', guarded(bs.evaluate_expression, model, None, {'va': a, 'vb': b}, True)),
        ('script "return <expr>"', guarded(bs.execute_script, op_script(op, unary), {'globals': {'va': a, 'vb': b}})),
    ]
    if want is rx.UNSPECIFIED:
        # The value is open - but whatever comes back must still be a BareScript value (C05 owns escaping exceptions)
        acc.unspecified += 1
        for how, got in runs:
            acc.evals += 1
            acc.transitions += 1
            if got[0] == 'value' and has_host(canon(got[1])):
                acc.violation(dict(case, path=how), 'a BareScript value (the documentation leaves open which)', canon(got[1]),
                              f'{how}: the operator yielded a host object that is not a BareScript value ({describe(op, a, b, unary)})')
                break
        return ('unspecified',)
    want_obs = obs(want, tags)
    lenient_ms = isinstance(want, str) and any(isinstance(x, datetime.datetime) and 0 < x.microsecond < 1000 for x in (a, b))
    failed = False
    for how, got in runs:
        acc.evals += 1
        acc.transitions += 1
        acc.traces += 1
        if failed:
            continue              # one recorded violation per cell (the first failing path)
        failed = True
        if got[0] == 'value' and lenient_ms and isinstance(got[1], str) and got[1] != want and zero_ms_dropped(got[1]) == want:
            acc.count('zero_millisecond_field_printed')       # '.000' printed or omitted: not documented, both accepted
            failed = False
        elif got[0] != 'value':
            acc.violation(dict(case, path=how), want_obs, got, f'{how}: the operator raised instead of yielding a value')
        elif obs(got[1], tags) != want_obs:
            acc.violation(dict(case, path=how), want_obs, obs(got[1], tags), f'{how}: result differs from the operator table ({describe(op, a, b, unary)})')
        elif op in ('&&', '||') and isinstance(want, (list, dict)) and got[1] is not want:
            acc.violation(dict(case, path=how), 'the operand itself', 'an equal but different object', f'{how}: {op} did not return one of its operands')
        else:
            failed = False
    return (op, rv.rtype(a), rv.rtype(b) if not unary else None, rv.rtype(want))


_ZERO_MS = re.compile(r'(T\d\d:\d\d:\d\d)\.000(?=[+-]\d\d:\d\d)')


def zero_ms_dropped(text):
    """The text with an all-zero millisecond field of an ISO time removed."""
    return _ZERO_MS.sub(r'\1', text)


def describe(op, a, b, unary):
    if unary:
        return f'{op} applied to a {rv.rtype(a)}'
    return f'{rv.rtype(a)} {op} {rv.rtype(b)}'


def fam_matrix(arg):
    tier, ops = arg
    acc = Acc('matrix')
    n = len(pool(tier)[0])
    for op in ops:
        unary = op.startswith('unary')
        sym = op[5:] if unary else op
        for i in range(n):
            for j in ([None] if unary else range(n)):
                acc.cases += 1
                case = {'tier': tier, 'op': sym, 'i': i}
                if j is not None:
                    case['j'] = j
                out = check_matrix(case, acc)
                acc.outcome(out)
                if out[-1] not in ('null', None) and out[0] != 'unspecified':
                    acc.nontrivial += 1
        acc.sample({'operator': sym, 'operands': [pool(tier)[0][5][0]] + ([] if unary else [pool(tier)[0][17][0]]),
                    'reference': rv_show(sym, unary, tier)})
    return acc.result()


def rv_show(sym, unary, tier):
    values, tags = pool(tier)
    a, b = values[5][1], values[17][1]
    res = rx.unary_op(sym, a) if unary else (a if sym == '||' else b) if sym in ('&&', '||') else rx.binary_op(sym, a, b)
    return obs(res, tags)


# ---------------------------------------------------------------------------------------------------------------------
# (b) order and laziness: effect trees, explored over all tapes. Two families share the machinery:
#     effects - lazy/eager node kinds to a larger tree size; order - every operator and call arity to a smaller size.

DOMAINS = {'effects': DOMAIN, 'order': [False, 2, 'a', 0], 'callee': [False, 2]}


def shapes(n, which='effects'):
    return gx.effect_shape_list(n, which)


def effect_env():
    if 'env' not in _CACHE:
        load_impl()
        from bare_script.library import SCRIPT_FUNCTIONS  # pylint: disable=import-outside-toplevel,import-error
        ff = script_function('ff', 'function ff(x, y):\n    return arrayNew(x, y)\nendfunction\n')
        _CACHE['env'] = (ff, SCRIPT_FUNCTIONS['arrayNew'])
    return _CACHE['env']


def host_hh(args, options):  # pylint: disable=unused-argument
    return list(args)


def host_hh_new(args, options):  # pylint: disable=unused-argument
    return ['new'] + list(args)


def host_rebind(args, options):  # pylint: disable=unused-argument
    options['globals']['hh'] = host_hh_new      # the callee family's leaf rebind(): binds hh to a different function
    return None


def ref_hh_new(vals):
    return ['new'] + list(vals)


def ref_ff(vals):
    """ff is declared with two parameters: a missing argument is null, an extra one is ignored."""
    return [vals[0] if len(vals) > 0 else None, vals[1] if len(vals) > 1 else None]


class Tape:
    def __init__(self, prefix, domain):
        self.prefix = prefix
        self.domain = domain
        self.reads = 0
        self.log = []

    def next(self, leaf):
        self.log.append(int(leaf))
        pos = self.reads
        self.reads += 1
        return self.domain[self.prefix[pos]] if pos < len(self.prefix) else self.domain[0]


def run_impl(model, prefix, how, domain):
    bs = load_impl()
    ff, array_new = effect_env()
    tape = Tape(prefix, domain)
    def tt(args, options):
        options['globals']['gc'] += 1         # every effect call advances the global counter that 'gc' leaves read
        return tape.next(args[0])

    glob = {'tt': tt, 'ff': ff, 'arrayNew': array_new, 'hh': host_hh, 'gc': 0, 'rebind': host_rebind, 'nullfn': None}
    if how == 'expression':
        res = guarded(bs.evaluate_expression, model, {'globals': glob, 'statementCount': 0}, None, False)
    elif how == 'script-model':
        res = guarded(bs.execute_script, {'statements': [{'return': {'expr': model}}]}, {'globals': glob})
    else:
        res = guarded(lambda: bs.execute_script(bs.parse_script('return ' + how + '\n'), {'globals': glob}))
    if res[0] == 'value' and has_host(canon(res[1])):
        res = ('host-object', canon(res[1]))
    return (('value', obs(res[1])) if res[0] == 'value' else res), tape.log, tape.reads


def run_ref(model, prefix, domain):
    """(result observation | 'unspecified', log, reads, complete)."""
    tape = Tape(prefix, domain)
    variables = {'gc': 0}

    def tt(vals):
        variables['gc'] += 1
        return tape.next(vals[0])

    def rebind(vals):  # pylint: disable=unused-argument
        funcs['hh'] = ref_hh_new
        return None

    funcs = {'tt': tt, 'ff': ref_ff, 'arrayNew': list, 'hh': list, 'rebind': rebind}      # 'missing', 'nullfn': no function
    try:
        res, complete = rx.evaluate_effects(model, variables, funcs)
    except rx.RefUndefinedFunction as exc:
        # the documented runtime error - raised only after the arguments of that call were evaluated
        return ('raise', 'BareScriptRuntimeError', str(exc)), tape.log, tape.reads, True
    return ('unspecified' if res is rx.UNSPECIFIED else ('value', obs(res))), tape.log, tape.reads, complete


def run_effect(model, prefix, acc, case, paths=('expression',)):
    """One complete execution on one tape, compared with the reference. Returns the number of tape positions that may be
    branched on (None after a violation)."""
    domain = DOMAINS[acc.family]
    want_res, want_log, want_reads, complete = run_ref(model, prefix, domain)
    if not complete:
        # a lazy construct had to decide on an UNSPECIFIED value: nothing after that point is defined
        acc.unspecified += 1
        return want_reads
    ok = True
    for how in paths:
        got_res, got_log, got_reads = run_impl(model, prefix, how, domain)
        acc.evals += 1
        bad = None
        if got_log != want_log:
            bad = 'order of leaf evaluation'
        elif got_reads != want_reads:
            bad = 'number of leaf evaluations'
        elif got_res[0] == 'host-object':
            bad = 'result (a host object that is not a BareScript value)'
        elif want_res[0] == 'raise':
            if got_res[0] != 'raise' or got_res[1] != want_res[1] or want_res[2] not in got_res[2]:
                bad = 'result (a runtime error for the undefined function, after its arguments were evaluated)'
        elif want_res != 'unspecified' and got_res != want_res:
            bad = 'result'
        if bad:
            ok = False
            label = how if how in ('expression', 'script-model') else 'script-text'
            acc.violation(dict(case, tape=list(prefix), path=label),
                          {'result': want_res, 'log': want_log, 'reads': want_reads}, {'result': got_res, 'log': got_log, 'reads': got_reads},
                          f'{bad} differs from the reference evaluator (tape over {domain})')
    if want_res == 'unspecified':
        acc.count('value_unspecified_effects_compared')
    acc.traces += 1
    acc.outcome((want_res, tuple(want_log)))
    return want_reads if ok else None


def explore_tree(n, index, acc):
    which = acc.family
    shape = shapes(n, which)[index]
    model, leaves = gx.effect_model(shape)
    text = gx.effect_text(shape)
    case = {'n': n, 'index': index, 'text': text}
    ndomain = len(DOMAINS[which])
    stack = [()]
    lazy = False
    while stack:
        prefix = stack.pop()
        paths = ('expression', 'script-model', text) if not prefix else ('expression',)
        reads = run_effect(model, prefix, acc, case, paths)
        if reads is None:
            return
        if reads < leaves:
            lazy = True
        reads = max(reads, len(prefix))
        new_nodes = reads - len(prefix) + 1
        acc.states += new_nodes
        acc.transitions += new_nodes - (0 if prefix else 1)
        choices = prefix + (0,) * (reads - len(prefix))
        for pos in range(reads - 1, len(prefix) - 1, -1):
            for alt in range(ndomain - 1, 0, -1):
                stack.append(choices[:pos] + (alt,))
    if (lazy and which == 'effects') or (which == 'order' and leaves >= 1 and text.count('tt(') + text.count('gc') >= 2) or \
            (which == 'callee' and leaves >= 1 and ('missing(' in text or 'nullfn(' in text)):
        acc.nontrivial += 1


def check_effects(case, acc):
    which = acc.family
    if 'tape' in case:
        shape = shapes(case['n'], which)[case['index']]
        model, _ = gx.effect_model(shape)
        path = case.get('path', 'expression')
        paths = (gx.effect_text(shape),) if path == 'script-text' else (path,)
        run_effect(model, tuple(case['tape']), acc, {'n': case['n'], 'index': case['index'], 'text': gx.effect_text(shape)}, paths)
    else:
        explore_tree(case['n'], case['index'], acc)


def fam_effects(arg):
    which, n, shard, nshards = arg
    acc = Acc(which)
    total = len(shapes(n, which))
    for index in range(shard, total, nshards):
        acc.cases += 1
        explore_tree(n, index, acc)
        if index < 2 * nshards:
            acc.sample({'tree': gx.effect_text(shapes(n, which)[index])})
    return acc.result()


# ---------------------------------------------------------------------------------------------------------------------
# (c) alias table - written by hand from the library documentation ($doc lines quoted)

ALIASES = [
    ('abs', 'mathAbs', 'Compute the absolute value of a number'),
    ('acos', 'mathAcos', 'Compute the arccosine, in radians, of a number'),
    ('asin', 'mathAsin', 'Compute the arcsine, in radians, of a number'),
    ('atan', 'mathAtan', 'Compute the arctangent, in radians, of a number'),
    ('atan2', 'mathAtan2', 'Compute the angle, in radians, between (0, 0) and a point'),
    ('ceil', 'mathCeil', 'Compute the ceiling of a number (round up to the next highest integer)'),
    ('charCodeAt', 'stringCharCodeAt', "Get a string index's character code"),
    ('cos', 'mathCos', 'Compute the cosine of an angle, in radians'),
    ('date', 'datetimeNew', 'Create a new datetime'),
    ('day', 'datetimeDay', 'Get the day of the month of a datetime'),
    ('endsWith', 'stringEndsWith', 'Determine if a string ends with a search string'),
    ('indexOf', 'stringIndexOf', 'Find the first index of a search string in a string'),
    ('fixed', 'numberToFixed', 'Format a number using fixed-point notation'),
    ('floor', 'mathFloor', 'Compute the floor of a number (round down to the next lowest integer)'),
    ('fromCharCode', 'stringFromCharCode', 'Create a string of characters from character codes'),
    ('hour', 'datetimeHour', 'Get the hour of a datetime'),
    ('lastIndexOf', 'stringLastIndexOf', 'Find the last index of a search string in a string'),
    ('len', 'stringLength', 'Get the length of a string'),
    ('lower', 'stringLower', 'Convert a string to lower-case'),
    ('ln', 'mathLn', 'Compute the natural logarithm (base e) of a number'),
    ('log', 'mathLog', 'Compute the logarithm (base 10) of a number'),
    ('max', 'mathMax', 'Compute the maximum value'),
    ('min', 'mathMin', 'Compute the minimum value'),
    ('millisecond', 'datetimeMillisecond', 'Get the millisecond of a datetime'),
    ('minute', 'datetimeMinute', 'Get the minute of a datetime'),
    ('month', 'datetimeMonth', 'Get the month (1-12) of a datetime'),
    ('now', 'datetimeNow', 'Get the current datetime'),
    ('parseInt', 'numberParseInt', 'Parse a string as an integer'),
    ('parseFloat', 'numberParseFloat', 'Parse a string as a floating point number'),
    ('pi', 'mathPi', 'Return the number pi'),
    ('rand', 'mathRandom', 'Compute a random number between 0 and 1, inclusive'),
    ('replace', 'stringReplace', 'Replace all instances of a string with another string'),
    ('rept', 'stringRepeat', 'Repeat a string'),
    ('round', 'mathRound', 'Round a number to a certain number of decimal places'),
    ('second', 'datetimeSecond', 'Get the second of a datetime'),
    ('sign', 'mathSign', 'Compute the sign of a number'),
    ('sin', 'mathSin', 'Compute the sine of an angle, in radians'),
    ('slice', 'stringSlice', 'Copy a portion of a string'),
    ('sqrt', 'mathSqrt', 'Compute the square root of a number'),
    ('startsWith', 'stringStartsWith', 'Determine if a string starts with a search string'),
    ('text', 'stringNew', 'Create a new string from a value'),
    ('tan', 'mathTan', 'Compute the tangent of an angle, in radians'),
    ('today', 'datetimeToday', "Get today's datetime"),
    ('trim', 'stringTrim', 'Trim the whitespace from the beginning and end of a string'),
    ('upper', 'stringUpper', 'Convert a string to upper-case'),
    ('year', 'datetimeYear', 'Get the full year of a datetime'),
]
NONDETERMINISTIC = {'now': 'datetime', 'today': 'datetime', 'rand': 'number'}
MAX_ARITY = 3


def alias_tuples():
    n = len(gx.ALIAS_POOL)
    for arity in range(MAX_ARITY + 1):
        yield from itertools.product(range(n), repeat=arity)


def call_model(name, arity):
    return {'function': {'name': name, 'args': [{'variable': f'x{k}'} for k in range(arity)]}}


def check_alias(case, acc):
    bs = load_impl()
    from bare_script.library import SCRIPT_FUNCTIONS  # pylint: disable=import-outside-toplevel,import-error
    alias, idx = case['alias'], case['args']
    lib = dict((a, l) for a, l, _ in ALIASES)[alias]
    labels = [gx.ALIAS_POOL[i][0] for i in idx]
    case = dict(case, library=lib, text=f'{alias}({", ".join(labels)})')

    def bindings():
        vals = copy.deepcopy([gx.ALIAS_POOL[i][1] for i in idx])
        return {f'x{k}': v for k, v in enumerate(vals)}

    got = guarded(bs.evaluate_expression, call_model(alias, len(idx)), {'globals': bindings()}, None, True)
    acc.evals += 1
    acc.transitions += 1
    acc.states += 1
    if alias in NONDETERMINISTIC:
        acc.traces += 1
        kind = rv.rtype(got[1]) if got[0] == 'value' else got
        if kind != NONDETERMINISTIC[alias]:
            acc.violation(case, NONDETERMINISTIC[alias], kind, f'{alias}() is not callable as a built-in or does not return a {NONDETERMINISTIC[alias]}')
        return kind
    # the aliased library function, called by its library name from a script with the same arguments
    script = {'statements': [{'return': {'expr': call_model(lib, len(idx))}}]}
    want = guarded(bs.execute_script, script, {'globals': bindings()})
    acc.evals += 1
    acc.traces += 1
    got_obs = ('value', obs(got[1])) if got[0] == 'value' else got
    want_obs = ('value', obs(want[1])) if want[0] == 'value' else want
    if got_obs != want_obs:
        acc.violation(case, want_obs, got_obs, f'built-in {alias} does not behave as {lib} called with the same arguments')
        return got_obs
    # ... and called directly as a Python function, when that call succeeds
    direct = guarded(SCRIPT_FUNCTIONS[lib], list(bindings().values()), {'globals': {}})
    acc.evals += 1
    if direct[0] == 'value' and ('value', obs(direct[1])) != got_obs:
        acc.violation(case, ('value', obs(direct[1])), got_obs, f'built-in {alias} differs from a direct call of {lib}')
    return got_obs


def fam_alias(arg):
    names = arg
    acc = Acc('alias')
    for alias in names:
        if alias in NONDETERMINISTIC:
            acc.cases += 1
            acc.outcome((alias, check_alias({'alias': alias, 'args': []}, acc)))
            continue
        for idx in alias_tuples():
            acc.cases += 1
            out = check_alias({'alias': alias, 'args': list(idx)}, acc)
            acc.outcome(out)
            if out[0] == 'value' and out[1] is not None:
                acc.nontrivial += 1
        acc.sample({'alias': alias, 'library': dict((a, l) for a, l, _ in ALIASES)[alias]})
    return acc.result()


def check_shadow(case, acc):
    bs = load_impl()
    alias, where = case['alias'], case['where']
    marker = 'shadow:' + alias

    def mine(args, options):  # pylint: disable=unused-argument
        return marker

    model = {'function': {'name': alias, 'args': [{'number': 1.0}]}}
    if where == 'globals':
        got = guarded(bs.evaluate_expression, model, {'globals': {alias: mine}}, None, True)
    else:
        got = guarded(bs.evaluate_expression, model, {'globals': {}}, {alias: mine}, True)
    acc.evals += 1
    acc.states += 1
    acc.transitions += 1
    acc.traces += 1
    if got != ('value', marker):
        acc.violation(case, marker, got, f'a function bound in {where} under the name {alias} did not win over the built-in')
    plain = guarded(bs.evaluate_expression, model, {'globals': {}}, None, True)
    acc.evals += 1
    return plain[0] == 'value' and plain[1] is not None      # the unshadowed built-in accepts the argument 1


def fam_shadow(arg):
    acc = Acc('shadow')
    for alias in arg:
        for where in ('globals', 'locals'):
            acc.cases += 1
            if check_shadow({'alias': alias, 'where': where}, acc):
                acc.nontrivial += 1
            acc.outcome((alias, where))
    acc.sample({'alias': arg[0], 'bound_in': 'globals', 'expected': 'shadow:' + arg[0]})
    return acc.result()


# (d) the alias table when the aliased LIBRARY name is shadowed: a two-step history on one globals object

_DT1 = datetime.datetime(2024, 3, 10, 12, 30, 45, 678000)
_DT2 = datetime.datetime(1999, 12, 31, 23, 59, 58, 1000)
_ONE_DT = [(_DT1,), (_DT2,)]
LIBSHADOW_ARGS = {       # two argument tuples per deterministic built-in, written by hand
    'abs': [(-1,), (2.5,)], 'acos': [(1,), (0,)], 'asin': [(1,), (0.5,)], 'atan': [(1,), (0,)], 'atan2': [(1, 1), (0, -1)],
    'ceil': [(2.5,), (-1.5,)], 'charCodeAt': [('abc', 1), ('b', 0)], 'cos': [(0,), (1,)], 'date': [(2024, 3, 10), (1999, 12, 31)],
    'day': _ONE_DT, 'endsWith': [('abc', 'c'), ('abc', 'b')], 'indexOf': [('abc', 'c'), ('abc', 'z')], 'fixed': [(2.5, 1), (10, 2)],
    'floor': [(2.5,), (-1.5,)], 'fromCharCode': [(97,), (97, 98)], 'hour': _ONE_DT, 'lastIndexOf': [('abca', 'a'), ('abc', 'z')],
    'len': [('abc',), ('',)], 'lower': [('ABC',), ('b',)], 'ln': [(1,), (10,)], 'log': [(10,), (100,)], 'max': [(1, 2.5), (10, -1, 0)],
    'min': [(1, 2.5), (10, -1, 0)], 'millisecond': _ONE_DT, 'minute': _ONE_DT, 'month': _ONE_DT, 'parseInt': [('12',), ('ff', 16)],
    'parseFloat': [('2.5',), ('1e+3',)], 'pi': [(), (1,)], 'replace': [('abc', 'b', 'x'), ('aaa', 'a', 'b')], 'rept': [('ab', 2), ('b', 0)],
    'round': [(2.5,), (2.567, 2)], 'second': _ONE_DT, 'sign': [(-1,), (2.5,)], 'sin': [(0,), (1,)], 'slice': [('abc', 1), ('abc', 0, 2)],
    'sqrt': [(4,), (2,)], 'startsWith': [('abc', 'a'), ('abc', 'b')], 'text': [(1,), (None,)], 'tan': [(0,), (1,)],
    'trim': [(' 12 ',), ('b',)], 'upper': [('abc',), ('b',)], 'year': _ONE_DT,
}
LIBSHADOW_KINDS = ['script function', 'host function', 'plain value', 'null']
SHADOW_MARKER = 'user-defined'


def shadowed_globals(lib, kind):
    """Step 1 of the history: a globals object in which the library name `lib` is bound to something of the user's."""
    bs = load_impl()
    glob = {}
    if kind == 'script function':
        bs.execute_script(bs.parse_script(f"function {lib}(a, b, c):\n    return '{SHADOW_MARKER}'\nendfunction\n"), {'globals': glob})
    elif kind == 'host function':
        glob[lib] = lambda args, options: SHADOW_MARKER
    elif kind == 'plain value':
        glob[lib] = 42
    else:
        glob[lib] = None
    return glob


def check_libshadow(case, acc):
    bs = load_impl()
    alias, kind, k = case['alias'], case['kind'], case['k']
    lib = dict((a, l) for a, l, _ in ALIASES)[alias]
    args = LIBSHADOW_ARGS[alias][k]
    case = dict(case, library=lib, text=f'{lib} := {kind}; {alias}{args!r}')

    def bind(glob):
        for n, v in enumerate(copy.deepcopy(list(args))):
            glob[f'x{n}'] = v
        return glob

    # the stock library function: called by its library name from a script on untouched globals
    want = guarded(bs.execute_script, {'statements': [{'return': {'expr': call_model(lib, len(args))}}]}, {'globals': bind({})})
    glob = bind(shadowed_globals(lib, kind))
    bound = glob.get(lib)
    got = guarded(bs.evaluate_expression, call_model(alias, len(args)), {'globals': glob, 'statementCount': 0}, None, True)
    acc.evals += 2
    acc.states += 2            # the globals object after step 1 and after step 2
    acc.transitions += 2
    acc.traces += 1
    got_obs = ('value', obs(got[1])) if got[0] == 'value' else got
    want_obs = ('value', obs(want[1])) if want[0] == 'value' else want
    if got_obs != want_obs:
        acc.violation(case, want_obs, got_obs, f'with the library name {lib} bound to a {kind} in globals, the built-in {alias} no longer behaves as the library function')
    if glob.get(lib) is not bound:
        acc.violation(case, 'the user binding kept', 'binding replaced', f'evaluating {alias} replaced the user\'s binding of {lib}')
    return want_obs


def fam_libshadow(arg):
    acc = Acc('libshadow')
    for alias in arg:
        for kind in LIBSHADOW_KINDS:
            for k in range(2):
                acc.cases += 1
                out = check_libshadow({'alias': alias, 'kind': kind, 'k': k}, acc)
                acc.outcome((alias, out))
                if callable(shadowed_globals('mathAbs', kind)['mathAbs']) and out != ('value', SHADOW_MARKER):
                    acc.nontrivial += 1       # calling the user's binding instead would be visible in the result
        acc.sample({'step1': f'{dict((a, l) for a, l, _ in ALIASES)[alias]} bound to a host function', 'step2': f'{alias}{LIBSHADOW_ARGS[alias][0]!r}'})
    return acc.result()


# (e) the keywords null / true / false while a variable of the same name is in scope

KEYWORDS = ['null', 'true', 'false']


def _kw(k):
    return {'variable': k}


_X = {'variable': 'x'}


def _bin(op, left, right):
    return {'binary': {'op': op, 'left': left, 'right': right}}


def _call(name, *args):
    return {'function': {'name': name, 'args': list(args)}}


# (label, source text with K for the keyword, model builder). x is an ordinary variable bound to 3, hh a host function.
KEYWORD_TEMPLATES = [
    ('alone', 'K', _kw),
    ('K == x', 'K == x', lambda k: _bin('==', _kw(k), _X)),
    ('K && x', 'K && x', lambda k: _bin('&&', _kw(k), _X)),
    ('K || x', 'K || x', lambda k: _bin('||', _kw(k), _X)),
    ('x && K', 'x && K', lambda k: _bin('&&', _X, _kw(k))),
    ('!K', '!K', lambda k: {'unary': {'op': '!', 'expr': _kw(k)}}),
    ('-K', '-K', lambda k: {'unary': {'op': '-', 'expr': _kw(k)}}),
    ("'' + K", "'' + K", lambda k: _bin('+', {'string': ''}, _kw(k))),
    ('hh(K, x)', 'hh(K, x)', lambda k: _call('hh', _kw(k), _X)),
    ('if(K, x, 9)', 'if(K, x, 9)', lambda k: _call('if', _kw(k), _X, {'number': 9.0})),
    ('if(x, K, 9)', 'if(x, K, 9)', lambda k: _call('if', _X, _kw(k), {'number': 9.0})),
    ('if(0, x, K)', 'if(0, x, K)', lambda k: _call('if', {'number': 0.0}, _X, _kw(k))),
]
KEYWORD_BINDINGS = [('7', 7, '7'), ("'kw'", 'kw', "'kw'"), ('[1]', [1], 'arrayNew(1)')]       # (label, value, script literal)
KEYWORD_SCOPES = ['globals', 'locals', 'both', 'script assignment', 'script function parameter']


def check_keywords(case, acc):
    bs = load_impl()
    label, text, build = KEYWORD_TEMPLATES[case['template']]
    kw = KEYWORDS[case['keyword']]
    _, value, literal = KEYWORD_BINDINGS[case['binding']]
    scope = KEYWORD_SCOPES[case['scope']]
    model = build(kw)
    text = text.replace('K', kw)
    case = dict(case, text=f'{text}   with {kw} bound to {literal} in: {scope}')
    # the reference sees the same bindings - and ignores them: a keyword is a constant whatever the environment says
    want = rx.evaluate(model, {'x': 3, kw: value}, {'hh': list})
    want_obs = ('value', obs(want))
    glob = {'x': 3, 'hh': host_hh}
    if scope == 'globals':
        glob[kw] = copy.deepcopy(value)
        got = guarded(bs.evaluate_expression, model, {'globals': glob}, None, True)
    elif scope == 'locals':
        got = guarded(bs.evaluate_expression, model, {'globals': glob}, {kw: copy.deepcopy(value)}, True)
    elif scope == 'both':
        glob[kw] = copy.deepcopy(value)
        got = guarded(bs.evaluate_expression, model, {'globals': glob}, {kw: copy.deepcopy(value)}, True)
    elif scope == 'script assignment':
        got = guarded(lambda: bs.execute_script(bs.parse_script(f'{kw} = {literal}\nreturn {text}\n'), {'globals': glob}))
    else:
        source = f'function kf({kw}):\n    return {text}\nendfunction\nreturn kf({literal})\n'
        got = guarded(lambda: bs.execute_script(bs.parse_script(source), {'globals': glob}))
    acc.evals += 1
    acc.states += 1
    acc.transitions += 1
    acc.traces += 1
    got_obs = ('value', obs(got[1])) if got[0] == 'value' else got
    if got_obs != want_obs:
        acc.violation(case, want_obs, got_obs, f'the keyword {kw} did not denote its constant while a variable named {kw} was bound ({scope})')
    # non-trivial: reading the variable instead of the constant would have changed the result
    alt = rx.evaluate(build('kwvar'), {'x': 3, 'kwvar': value}, {'hh': list})
    return want_obs, ('value', obs(alt)) != want_obs


def fam_keywords(arg):
    acc = Acc('keywords')
    for template in arg:
        for keyword in range(len(KEYWORDS)):
            for binding in range(len(KEYWORD_BINDINGS)):
                for scope in range(len(KEYWORD_SCOPES)):
                    acc.cases += 1
                    out, matters = check_keywords({'template': template, 'keyword': keyword, 'binding': binding, 'scope': scope}, acc)
                    acc.outcome((template, keyword, out))
                    if matters:
                        acc.nontrivial += 1
        acc.sample({'expression': KEYWORD_TEMPLATES[template][1].replace('K', 'null'), 'environment': 'null bound to 7 in locals'})
    return acc.result()


# (f) negative zero: zero-valued sub-expressions (number literals in text are doubles) under sign-sensitive consumers

ZERO_EXPRS = ['0', '-0', '(1 - 1)', '(0 * -1)', '(-1 * 0)', '(0 * 1)', '-(1 - 1)', '(0 / -1)', '(-0 + 0)', '(-0 - 0)', '(-0 + -0)',
              '-(-0)', '(-0 * -0)', '(0 ** 3)', '(-0 ** 3)', 'pz', 'nz', '-pz', '-nz']
ZERO_CONSUMERS = ['K', "'' + K", "K + ''", 'text(K)', '-K', 'K * 1', '1 * K', 'K * -1', 'K / 1', 'K / -2', 'K + 0', 'K - 0', '0 - K', 'K + K',
                  'K * K', 'atan2(K, -1)', 'atan2(K, 1)', 'atan2(-1, K)', 'K == 0', 'K < 0', 'if(K, 1, 2)', 'K ** 3', 'K % -1', 'K % 1',
                  'hh(K)', 'K && 1', 'K || -0']
ZERO_VARS = {'pz': 0.0, 'nz': -0.0}


def _ref_atan2(vals):
    if len(vals) != 2 or not all(rv.is_number(v) for v in vals):
        return rx.UNSPECIFIED
    return math.atan2(float(vals[0]), float(vals[1]))      # IEEE: atan2(-0, -1) = -pi, atan2(+0, -1) = +pi


def check_negzero(case, acc):
    bs = load_impl()
    text = ZERO_CONSUMERS[case['consumer']].replace('K', ZERO_EXPRS[case['zero']])
    case = dict(case, text=text)
    # reference: own parser, own evaluator; text() is the documented number-to-text rule, atan2 the IEEE function
    model = rx.parse(text)
    want = rx.evaluate(model, dict(ZERO_VARS), {'text': lambda vals: rv.string(vals[0]) if len(vals) == 1 else rx.UNSPECIFIED,
                                                'atan2': _ref_atan2, 'hh': list})
    acc.states += 1
    script_text = text.replace('text(', 'stringNew(').replace('atan2(', 'mathAtan2(')
    runs = [
        ('parse_expression + evaluate_expression', guarded(lambda: bs.evaluate_expression(bs.parse_expression(text), {'globals': dict(ZERO_VARS, hh=host_hh)}, None, True))),
        ('script "return <expr>"', guarded(lambda: bs.execute_script(bs.parse_script('return ' + script_text + '\n'), {'globals': dict(ZERO_VARS, hh=host_hh)}))),
    ]
    if want is rx.UNSPECIFIED:
        acc.unspecified += 1
        acc.evals += len(runs)
        return ('unspecified',)
    want_obs = ('value', obs(want))
    for how, got in runs:
        acc.evals += 1
        acc.transitions += 1
        acc.traces += 1
        got_obs = ('value', obs(got[1])) if got[0] == 'value' else got
        if got_obs != want_obs:
            acc.violation(dict(case, path=how), want_obs, got_obs, f'{how}: {text} differs from IEEE arithmetic / the number-to-text rule (sign of zero)')
            break
    return want_obs


def fam_negzero(arg):
    acc = Acc('negzero')
    for zero in arg:
        for consumer in range(len(ZERO_CONSUMERS)):
            acc.cases += 1
            out = check_negzero({'zero': zero, 'consumer': consumer}, acc)
            acc.outcome(out)
            flat = repr(out)
            if "'-0'" in flat or '-0' in flat or '3.14' in flat:
                acc.nontrivial += 1        # the sign of the zero is visible in the expected result
        acc.sample({'expression': ZERO_CONSUMERS[1].replace('K', ZERO_EXPRS[zero])})
    return acc.result()


# ---------------------------------------------------------------------------------------------------------------------


def tree_shards(which, nmax):
    out = []
    for n in range(nmax + 1):
        total = len(shapes(n, which))
        k = 1 if total < 500 else (16 if total < 50000 else 128)
        out += [(which, n, s, k) for s in range(k)]
    return out


def families(tier):
    quick = tier == 'quick'
    npool = len(gx.matrix_pool(tier, None))
    ops = BINARY + ['unary' + u for u in UNARY]
    nmax = 3 if quick else 4
    effect_shards = tree_shards('effects', nmax)
    omax = 2 if quick else 3
    order_shards = tree_shards('order', omax)
    callee_shards = tree_shards('callee', omax)
    names = [a for a, _, _ in ALIASES]
    ntuples = sum(len(gx.ALIAS_POOL) ** k for k in range(MAX_ARITY + 1))
    return [
        Family('matrix', fam_matrix, [(tier, [op]) for op in ops],
               f'14 binary operators x {npool} x {npool} operands + 2 unary x {npool}, three evaluation paths each',
               expected=14 * npool * npool + 2 * npool),
        Family('effects', fam_effects, effect_shards,
               f'every effect tree with <= {nmax} internal nodes over 12 node kinds, all tapes over a 4-value domain',
               expected=sum(gx.tree_count(n, leaves=1, unary_labels=3, binary_labels=8, ternary_labels=1) for n in range(nmax + 1))),
        Family('order', fam_effects, order_shards,
               f'every effect tree with <= {omax} internal nodes over {len(gx.ORDER_LABELS)} node kinds (14 binary and 2 unary operators, group, '
               f'if/1..3, host and script calls with 1..3 arguments, arrayNew/2), leaves tt(i) or a read of the global gc that every tt call increments, '
               f'all tapes over {DOMAINS["order"]}',
               expected=sum(gx.tree_count(n, *gx.label_counts('order')) for n in range(omax + 1))),
        Family('callee', fam_effects, callee_shards,
               f'every effect tree with <= {omax} internal nodes over calls of an unbound name with 1..3 arguments, of a name bound to null, '
               f'hh/2, &&, +, group; leaves tt(i), gc, rebind(); all tapes over {DOMAINS["callee"]}',
               expected=sum(gx.tree_count(n, *gx.label_counts('callee')) for n in range(omax + 1))),
        Family('alias', fam_alias, split(names, 46),
               f'{len(names)} expression built-ins x every argument tuple of arity <= {MAX_ARITY} over {len(gx.ALIAS_POOL)} values ({ntuples} tuples; now/today/rand called once)',
               expected=(len(names) - len(NONDETERMINISTIC)) * ntuples + len(NONDETERMINISTIC)),
        Family('libshadow', fam_libshadow, split([n for n in names if n not in NONDETERMINISTIC], 8),
               f'{len(LIBSHADOW_ARGS)} deterministic built-ins x {len(LIBSHADOW_KINDS)} kinds of user binding of the aliased library name x 2 argument tuples',
               expected=len(LIBSHADOW_ARGS) * len(LIBSHADOW_KINDS) * 2),
        Family('keywords', fam_keywords, split(list(range(len(KEYWORD_TEMPLATES))), 8),
               f'{len(KEYWORD_TEMPLATES)} expression templates x 3 keywords x {len(KEYWORD_BINDINGS)} bound values x {len(KEYWORD_SCOPES)} scopes in which a '
               'variable of the keyword\'s name is bound',
               expected=len(KEYWORD_TEMPLATES) * len(KEYWORDS) * len(KEYWORD_BINDINGS) * len(KEYWORD_SCOPES)),
        Family('negzero', fam_negzero, split(list(range(len(ZERO_EXPRS))), 8),
               f'{len(ZERO_EXPRS)} zero-valued expressions (literals, 1 - 1, 0 * -1, -(...), variables holding 0.0 / -0.0) x {len(ZERO_CONSUMERS)} '
               'sign-sensitive consumers (text, concatenation, unary minus, * / + - % **, atan2, comparisons), as expression text and as script',
               expected=len(ZERO_EXPRS) * len(ZERO_CONSUMERS)),
        Family('shadow', fam_shadow, split(names, 2), 'every expression built-in name bound in globals / in locals', expected=2 * len(names)),
    ]


_CHECKS = {'matrix': check_matrix, 'effects': check_effects, 'order': check_effects, 'callee': check_effects, 'alias': check_alias, 'shadow': check_shadow, 'libshadow': check_libshadow, 'keywords': check_keywords, 'negzero': check_negzero}


def replay(family, case):
    acc = Acc(family)
    case = {k: v for k, v in case.items() if k not in ('labels', 'text', 'library')}
    if family == 'matrix':
        case.pop('path', None)
    _CHECKS[family](case, acc)
    res = acc.result()
    return {'differs': bool(res['nviol'] or res['nknown']), 'violations': res['violations'] + res['known_violations']}
