"""known_findings.json reader. The file is committed and never written at run time.

An entry {"id", "property", "status": "known"|"fixed", "what", ...} with status "known" lets the check print a
KNOWN-FINDING line for violations a family attributed to that id *by a signature evaluated on the violation found*;
entries with status "fixed" suppress nothing.
"""

import json
import os

from .common import VERIF_DIR


def load():
    path = os.path.join(VERIF_DIR, 'known_findings.json')
    if not os.path.exists(path):
        return []
    with open(path, encoding='utf-8') as fh:
        return json.load(fh)


def match(entries, pid, fid):
    if fid is None:
        return None
    for entry in entries:
        if entry.get('id') == fid and entry.get('status') == 'known' and pid in entry.get('properties', [entry.get('property')]):
            return entry
    return None
