"""Evidence writer (/root/.vp/EVIDENCE.schema.json). Every number is measured on the run that writes the file."""

import json
import os

from .common import VERIF_DIR


def write(pid, mod, tier, seed, total, fam_reports, samples, exhaustive, wall, violations, timed_out, cap_s, known_count, partial=False):
    level = mod.LEVEL
    cov = {
        'evaluations': max(total['evals'], total['cases']),
        'cases_enumerated': total['cases'],
        'distinct_nontrivial': total['nontrivial'],
        'rule': mod.RULE,
        'samples': samples if samples else [{'note': 'no sample recorded'}],
        'exhaustive': bool(exhaustive),
        'families': fam_reports,
        'unspecified_skipped': total['unspecified'],
        'pruned_by_bound': total['pruned'],
        'distinct_outcomes': sum(r['distinct_outcomes'] for r in fam_reports),
        'time_cap_s': cap_s,
        'time_cap_hit': bool(timed_out),
        'known_finding_cases': known_count,
    }
    if level == 'model_checking':
        cov['states'] = total['states']
        cov['transitions'] = total['transitions']
        cov['traces_validated_against_impl'] = total['traces']
    if partial:
        cov['partial_run'] = 'only the families named with --family were run'
    doc = {
        'property_id': pid,
        'tier': tier,
        'seed': seed,
        'level': level,
        'coverage': cov,
        'assumptions': list(getattr(mod, 'ASSUMPTIONS', [])),
        'wall_s': round(wall, 2),
        'violations': violations,
        'repo': os.environ.get('VERIF_REPO', '/repo'),
    }
    os.makedirs(os.path.join(VERIF_DIR, 'evidence'), exist_ok=True)
    path = os.path.join(VERIF_DIR, 'evidence', f'{pid}.json')
    tmp = path + '.tmp'
    with open(tmp, 'w', encoding='utf-8') as fh:
        json.dump(doc, fh, indent=1, sort_keys=True, default=repr)
        fh.write('\n')
    os.replace(tmp, path)
    return path
