"""Reference big-step semantics of structured BareScript (DESIGN 2.4). It interprets the AST of mc/gen/ast.py by
recursion; it never sees labels or jumps and shares no code with bare_script.

Scoping (C04): inside a script function assignments write that call's locals, reads see locals before globals;
parameters are bound positionally, missing ones null, surplus ignored, a trailing '...' parameter collects the rest.
At top level assignments write the globals. A `function` statement binds a global.

One switch, quirk_f7, reproduces the pinned lowering of `continue` inside `while` (the next iteration runs without
re-testing the condition). It is used ONLY to classify an already-found violation as the known finding F7.
"""

from . import values as rv


class RefRuntimeError(Exception):
    pass


class RefHorizon(Exception):
    pass


class _Break(Exception):
    pass


class _Continue(Exception):
    pass


class _Return(Exception):
    def __init__(self, value):
        super().__init__()
        self.value = value


class ScriptFn:
    """A script function value. `func`/`args` mimic the shape common.canon() recognises ('script:<name>')."""

    def __init__(self, name, params, last, body):
        self.name = name
        self.params = params
        self.last = last
        self.body = body
        self.func = 'script'
        self.args = ({'name': name, 'statements': []},)

    def __call__(self, *a, **k):   # makes callable() true
        raise RuntimeError('reference function objects are called by the reference interpreter only')


class Machine:
    def __init__(self, globals_, host, log, quirk_f7=False, horizon=20000, lib=None):
        self.g = globals_          # name -> value (the reference's own dict)
        self.host = host           # name -> python callable(args_list) (tape functions, log functions)
        self.lib = lib or {}       # name -> python callable(args_list): reference models of the few library functions used
        self.log = log             # list
        self.quirk = quirk_f7
        self.steps = 0
        self.horizon = horizon

    # -- expressions
    def lookup(self, name, loc):
        if name == 'null':
            return None
        if name == 'true':
            return True
        if name == 'false':
            return False
        if loc is not None and name in loc:
            return loc[name]
        return self.g.get(name)

    def ev(self, e, loc):
        k = e[0]
        if k == 'num':
            return float(e[1])
        if k == 'str':
            return e[1]
        if k == 'var':
            return self.lookup(e[1], loc)
        if k == 'grp':
            return self.ev(e[1], loc)
        if k == 'not':
            return not rv.truthy(self.ev(e[1], loc))
        if k == 'neg':
            v = self.ev(e[1], loc)
            return -v if rv.is_number(v) else None
        if k == 'call':
            return self.call(e[1], [self.ev(a, loc) for a in e[2]], loc)
        if k == 'bin':
            op = e[1]
            left = self.ev(e[2], loc)
            if op == '&&':
                return left if not rv.truthy(left) else self.ev(e[3], loc)
            if op == '||':
                return left if rv.truthy(left) else self.ev(e[3], loc)
            right = self.ev(e[3], loc)
            return self.binop(op, left, right)
        raise ValueError(k)

    @staticmethod
    def binop(op, a, b):
        if op in ('==', '!=', '<', '<=', '>', '>='):
            c = rv.compare(a, b)
            return {'==': c == 0, '!=': c != 0, '<': c < 0, '<=': c <= 0, '>': c > 0, '>=': c >= 0}[op]
        if op == '+':
            if rv.is_number(a) and rv.is_number(b):
                return a + b
            if isinstance(a, str) or isinstance(b, str):
                sa = a if isinstance(a, str) else rv.string(a)
                sb = b if isinstance(b, str) else rv.string(b)
                return sa + sb
            return None
        if op in ('-', '*'):
            if rv.is_number(a) and rv.is_number(b):
                return a - b if op == '-' else a * b
            return None
        raise ValueError('operator outside the generated alphabet: ' + op)

    def call(self, name, args, loc):
        if loc is not None and name in loc:
            fn = loc[name]
        elif name in self.g:
            fn = self.g[name]
        elif name in self.host:
            fn = ('host', name)
        elif name in self.lib:
            fn = ('lib', name)
        else:
            raise RefRuntimeError(f'Undefined function "{name}"')
        return self.apply(fn, args, name)

    def apply(self, fn, args, name='?'):
        if isinstance(fn, ScriptFn):
            loc = {}
            n = len(fn.params)
            for i, p in enumerate(fn.params):
                if fn.last and i == n - 1:
                    loc[p] = list(args[i:]) if i < len(args) else []
                else:
                    loc[p] = args[i] if i < len(args) else None
            try:
                self.block(fn.body, loc)
            except _Return as r:
                return r.value
            return None
        if isinstance(fn, tuple) and fn[0] == 'host':
            return self.host[fn[1]](args)
        if isinstance(fn, tuple) and fn[0] == 'lib':
            return self.lib[fn[1]](self, args)
        if isinstance(fn, HostValue):
            return fn.fn(args)
        if fn is None:
            raise RefRuntimeError(f'Undefined function "{name}"')
        # a non-function value in call position: the documented outcome is a contained failure -> null
        return None

    # -- statements
    def tick(self):
        self.steps += 1
        if self.steps > self.horizon:
            raise RefHorizon()

    def assign(self, name, value, loc):
        if loc is not None:
            loc[name] = value
        else:
            self.g[name] = value

    def block(self, body, loc):
        for s in body:
            self.stmt(s, loc)

    def stmt(self, s, loc):
        k = s[0]
        if k == 'comment':
            return
        self.tick()
        if k == 'expr':
            self.ev(s[1], loc)
        elif k == 'assign':
            self.assign(s[1], self.ev(s[2], loc), loc)
        elif k == 'if':
            for cond, sub in s[1]:
                if rv.truthy(self.ev(cond, loc)):
                    self.block(sub, loc)
                    return
            if s[2] is not None:
                self.block(s[2], loc)
        elif k == 'while':
            skip_test = False
            while True:
                self.tick()
                if not skip_test and not rv.truthy(self.ev(s[1], loc)):
                    break
                skip_test = False
                try:
                    self.block(s[2], loc)
                except _Break:
                    break
                except _Continue:
                    if self.quirk:
                        skip_test = True
        elif k == 'for':
            _, var, idx, e, sub = s
            arr = self.ev(e, loc)
            if not isinstance(arr, list):
                return      # the generators only iterate arrays; anything else is outside the property
            n = len(arr)    # "once-evaluated": length and array are fixed on entry
            i = 0
            while i < n:
                self.tick()
                self.assign(var, arr[i] if i < len(arr) else None, loc)
                if idx:
                    self.assign(idx, i, loc)
                try:
                    self.block(sub, loc)
                except _Break:
                    break
                except _Continue:
                    pass
                i += 1
        elif k == 'break':
            raise _Break()
        elif k == 'continue':
            raise _Continue()
        elif k == 'return':
            raise _Return(self.ev(s[1], loc) if s[1] is not None else None)
        elif k == 'func':
            _, name, params, last, sub = s
            self.g[name] = ScriptFn(name, list(params), last, sub)
        else:
            raise ValueError(k)

    def run(self, body):
        """Run a whole script. Returns ('ok', value) | ('raise', 'runtime', msg) | ('horizon',)."""
        try:
            try:
                self.block(body, None)
            except _Return as r:
                return ('ok', r.value)
            return ('ok', None)
        except RefRuntimeError as exc:
            return ('raise', 'BareScriptRuntimeError', str(exc))
        except RefHorizon:
            return ('horizon',)


class HostValue:
    """A host function held in a variable on the reference side."""

    def __init__(self, tag, fn):
        self.tag = tag
        self.fn = fn
        self.__name__ = tag

    def __call__(self, *a, **k):
        raise RuntimeError('called by the reference interpreter only')


def selftest():
    log = []
    m = Machine({}, {'lg': lambda a: log.append(a[0])}, log)
    prog = [('assign', 'x', ('num', 0)),
            ('while', ('bin', '<', ('var', 'x'), ('num', 3)), [
                ('assign', 'x', ('bin', '+', ('var', 'x'), ('num', 1))),
                ('if', [(('bin', '==', ('var', 'x'), ('num', 2)), [('continue',)])], None),
                ('expr', ('call', 'lg', [('var', 'x')]))]),
            ('return', ('var', 'x'))]
    assert m.run(prog) == ('ok', 3.0) and log == [1.0, 3.0]
