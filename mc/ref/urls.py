"""Reference include-path resolution (DESIGN appendix A.5). No code shared with bare_script.

resolve(base, ref): ref with a URL scheme -> ref; ref starting with '/' -> ref; base with a URL scheme -> base up to
and including its last '/', followed by ref; else the directory of base joined with ref.
Comparison of locations is modulo '.' segments and doubled separators, never modulo '..'.
"""

import re

_SCHEME = re.compile(r'^[a-z]+:')


def has_scheme(s):
    return _SCHEME.match(s) is not None


def resolve(base, ref):
    if has_scheme(ref):
        return ref
    if ref.startswith('/'):
        return ref
    if has_scheme(base):
        return base[:base.rfind('/') + 1] + ref
    slash = base.rfind('/')
    if slash < 0:
        return ref
    return base[:slash + 1] + ref


def normalize(loc):
    """Canonical spelling of a location for comparison: drop '.' segments and doubled separators (not '..')."""
    if has_scheme(loc):
        m = re.match(r'^([a-z]+://[^/]*)(/.*)?$', loc)
        if not m:
            return loc
        head, path = m.group(1), m.group(2) or ''
    else:
        head, path = '', loc
    lead = '/' if path.startswith('/') else ''
    segs = [s for s in path.split('/') if s not in ('', '.')]
    return head + lead + '/'.join(segs)


def selftest():
    assert resolve('lib/main.bare', 'x.bare') == 'lib/x.bare'
    assert resolve('main.bare', 'sub/x.bare') == 'sub/x.bare'
    assert resolve('lib/main.bare', '/abs/x.bare') == '/abs/x.bare'
    assert resolve('http://h/p/main.bare', 'q/x.bare') == 'http://h/p/q/x.bare'
    assert resolve('lib/main.bare', 'http://h/p/x.bare') == 'http://h/p/x.bare'
    assert normalize('lib/./x.bare') == 'lib/x.bare' and normalize('./x.bare') == 'x.bare'
    assert normalize('lib/../x.bare') == 'lib/../x.bare'
