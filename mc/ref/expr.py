"""Reference expression language: lexer, precedence-climbing parser, evaluator (DESIGN 2.4, 4/C02, 4/C03, A.2).

Written from the property texts C02/C03, appendix A.2 and the documented lexical grammar. Shares no code with
bare_script (it never imports it). Three parts:

(i)   lex(text)      -> token list. The lexer tracks whether an *operand* or an *operator* is expected next, because
                        two token classes depend on it: a sign is part of a number literal only where an operand is
                        expected (``a -1`` is a subtraction, ``a - -1`` subtracts the literal -1), and ``!``/``-`` are
                        unary operators only there.
(ii)  parse(text)    -> expression model dict, or raises RefSyntaxError. Precedence climbing, seven levels, all
                        left-associative, unary operators above every binary operator.
(iii) evaluate(...)  -> value, or UNSPECIFIED where the documentation leaves the result open.

Corners of the lexical grammar the documentation does not settle raise RefUnspecified (callers skip and count).
"""

import datetime
import math

from . import values as rv

UNSPECIFIED = rv.UNSPECIFIED


class RefSyntaxError(Exception):
    """The text is not a well-formed expression."""

    def __init__(self, message, pos):
        super().__init__(f'{message} at offset {pos}')
        self.message = message
        self.pos = pos


class RefUnspecified(Exception):
    """The documented grammar / semantics do not say what this input means."""


# ---------------------------------------------------------------------------------------------------------------------
# (i) lexer

# Binary operators by precedence level (higher binds tighter); every level associates left to right.
LEVELS = {
    '||': 1,
    '&&': 2,
    '==': 3, '!=': 3,
    '<=': 4, '<': 4, '>=': 4, '>': 4,
    '+': 5, '-': 5,
    '*': 6, '/': 6, '%': 6,
    '**': 7,
}
BINARY_OPS = sorted(LEVELS, key=lambda op: (-len(op), op))   # longest first: maximal munch
UNARY_OPS = ('!', '-')

_DIGITS = '0123456789'


def _is_ident_start(ch):
    return ch == '_' or ('a' <= ch <= 'z') or ('A' <= ch <= 'Z')


def _is_ident_char(ch):
    return ch == '_' or ch.isalnum()


def _scan_number(text, pos):
    """[+-]? digits ( '.' digits* )? ( 'e' [+-] digits )?   - returns the end offset (pos must start such a literal)."""
    n = len(text)
    i = pos
    if text[i] in '+-':
        i += 1
    while i < n and text[i] in _DIGITS:
        i += 1
    if i < n and text[i] == '.':
        i += 1
        while i < n and text[i] in _DIGITS:
            i += 1
    if i + 2 < n and text[i] == 'e' and text[i + 1] in '+-' and text[i + 2] in _DIGITS:
        i += 3
        while i < n and text[i] in _DIGITS:
            i += 1
    return i


def _scan_string(text, pos):
    """Quoted string starting at pos; backslash escapes the quote character and the backslash."""
    quote = text[pos]
    n = len(text)
    i = pos + 1
    out = []
    escaped_quote = False
    while i < n:
        ch = text[i]
        if ch == '\\' and i + 1 < n and text[i + 1] in (quote, '\\'):
            if text[i + 1] == quote:
                escaped_quote = True
            out.append(text[i + 1])
            i += 2
        elif ch == quote:
            return ''.join(out), i + 1
        else:
            out.append(ch)
            i += 1
    if escaped_quote:
        # "'a\'" - could also be read as the string 'a\' ; the documentation does not say which
        raise RefUnspecified('unterminated string after an escaped quote')
    raise RefSyntaxError('unterminated string', pos)


def _scan_bracket_name(text, pos):
    """[ name ] - any characters up to the closing bracket, \\] stands for ]."""
    n = len(text)
    i = pos + 1
    while i < n and text[i].isspace():
        i += 1
    out = []
    escaped = False
    while i < n:
        ch = text[i]
        if ch == '\\' and i + 1 < n and text[i + 1] == ']':
            out.append(']')
            escaped = True
            i += 2
        elif ch == '\\':
            raise RefUnspecified('backslash inside a bracketed name other than \\]')
        elif ch == ']':
            name = ''.join(out)
            if not name:
                if i > pos + 1:
                    raise RefUnspecified('bracketed name made of whitespace only')
                raise RefSyntaxError('empty bracketed name', pos)
            if name[-1].isspace():
                raise RefUnspecified('bracketed name with trailing whitespace')
            return name, i + 1
        else:
            out.append(ch)
            i += 1
    if escaped:
        raise RefUnspecified('unterminated bracketed name after an escaped bracket')
    raise RefSyntaxError('unterminated bracketed name', pos)


def lex(text):
    """Token list [(kind, value, offset)]. kinds: num str var fn ( ) , op un.

    'fn' is a function-call opening: an identifier of at least two characters followed, after optional white space, by
    '(' (the parenthesis is part of the token). 'un' is a unary operator (operand position), 'op' a binary operator
    (operator position).
    """
    toks = []
    n = len(text)
    i = 0
    want_operand = True
    while True:
        while i < n and text[i].isspace():
            i += 1
        if i >= n:
            return toks
        ch = text[i]
        if ch == ')':
            toks.append((')', ')', i))
            i += 1
            want_operand = False
            continue
        if ch == ',':
            toks.append((',', ',', i))
            i += 1
            want_operand = True
            continue
        if want_operand:
            if ch == '(':
                toks.append(('(', '(', i))
                i += 1
            elif ch in _DIGITS or (ch in '+-' and i + 1 < n and text[i + 1] in _DIGITS):
                end = _scan_number(text, i)
                toks.append(('num', float(text[i:end]), i))
                i = end
                want_operand = False
            elif ch in UNARY_OPS:
                toks.append(('un', ch, i))
                i += 1
            elif ch in '\'"':
                value, end = _scan_string(text, i)
                toks.append(('str', value, i))
                i = end
                want_operand = False
            elif ch == '[':
                value, end = _scan_bracket_name(text, i)
                toks.append(('var', value, i))
                i = end
                want_operand = False
            elif _is_ident_start(ch):
                end = i + 1
                while end < n and _is_ident_char(text[end]):
                    end += 1
                name = text[i:end]
                look = end
                while look < n and text[look].isspace():
                    look += 1
                if len(name) >= 2 and look < n and text[look] == '(':
                    toks.append(('fn', name, i))
                    i = look + 1
                else:
                    toks.append(('var', name, i))
                    i = end
                    want_operand = False
            else:
                raise RefSyntaxError('operand expected', i)
        else:
            for op in BINARY_OPS:
                if text.startswith(op, i):
                    toks.append(('op', op, i))
                    i += len(op)
                    want_operand = True
                    break
            else:
                raise RefSyntaxError('operator expected', i)


# ---------------------------------------------------------------------------------------------------------------------
# (ii) parser


class _Parser:
    def __init__(self, toks, end):
        self.toks = toks
        self.i = 0
        self.end = end

    def peek(self):
        return self.toks[self.i] if self.i < len(self.toks) else ('end', None, self.end)

    def take(self):
        tok = self.peek()
        self.i += 1
        return tok

    def expression(self, min_level):
        left = self.unary()
        while True:
            kind, value, _ = self.peek()
            if kind != 'op' or LEVELS[value] < min_level:
                return left
            self.take()
            right = self.expression(LEVELS[value] + 1)     # left-associative: the right operand binds strictly tighter
            left = {'binary': {'op': value, 'left': left, 'right': right}}

    def unary(self):
        kind, value, pos = self.take()
        if kind == 'un':
            return {'unary': {'op': value, 'expr': self.unary()}}      # tighter than every binary operator
        if kind == '(':
            inner = self.expression(1)
            kind2, _, pos2 = self.take()
            if kind2 != ')':
                raise RefSyntaxError('unmatched parenthesis', pos2)
            return {'group': inner}
        if kind == 'fn':
            args = []
            if self.peek()[0] == ')':
                self.take()
                return {'function': {'name': value, 'args': args}}
            while True:
                args.append(self.expression(1))
                kind2, _, pos2 = self.take()
                if kind2 == ')':
                    return {'function': {'name': value, 'args': args}}
                if kind2 != ',':
                    raise RefSyntaxError('"," or ")" expected', pos2)
        if kind == 'num':
            return {'number': value}
        if kind == 'str':
            return {'string': value}
        if kind == 'var':
            return {'variable': value}
        raise RefSyntaxError('operand expected', pos)


def parse(text):
    """Expression model of the text, or RefSyntaxError (RefUnspecified for undocumented lexical corners)."""
    parser = _Parser(lex(text), len(text))
    expr = parser.expression(1)
    kind, _, pos = parser.peek()
    if kind != 'end':
        raise RefSyntaxError('end of expression expected', pos)
    return expr


def parse_outcome(text):
    """('ok', model) | ('reject', message) | ('unspecified', why)."""
    try:
        return ('ok', parse(text))
    except RefSyntaxError as exc:
        return ('reject', exc.message)
    except RefUnspecified as exc:
        return ('unspecified', str(exc))


def normal(model):
    """Normal form used for comparing parse trees.

    The grammar offers two readings of '-1' in operand position - the signed literal -1 and unary minus applied to the
    literal 1. They have the same meaning under the stated precedence (unary binds tighter than any binary operator),
    so they are identified: a number with a negative sign becomes unary minus of its magnitude.
    """
    (key, val), = model.items()
    if key == 'number':
        if val < 0 or (val == 0 and math.copysign(1.0, val) < 0):
            return {'unary': {'op': '-', 'expr': {'number': -val}}}
        return {'number': float(val)}
    if key in ('string', 'variable'):
        return {key: val}
    if key == 'group':
        return {'group': normal(val)}
    if key == 'unary':
        return {'unary': {'op': val['op'], 'expr': normal(val['expr'])}}
    if key == 'binary':
        return {'binary': {'op': val['op'], 'left': normal(val['left']), 'right': normal(val['right'])}}
    if key == 'function':
        return {'function': {'name': val['name'], 'args': [normal(a) for a in val.get('args', [])]}}
    raise ValueError(f'not an expression model: {key!r}')


def well_formed(model):
    """True if `model` is structurally an expression model (exactly the documented members, right carriers)."""
    if not isinstance(model, dict) or len(model) != 1:
        return False
    (key, val), = model.items()
    if key == 'number':
        return isinstance(val, float) or (isinstance(val, int) and not isinstance(val, bool))
    if key in ('string', 'variable'):
        return isinstance(val, str)
    if key == 'group':
        return well_formed(val)
    if key == 'unary':
        return isinstance(val, dict) and set(val) == {'op', 'expr'} and val['op'] in UNARY_OPS and well_formed(val['expr'])
    if key == 'binary':
        return (isinstance(val, dict) and set(val) == {'op', 'left', 'right'} and val['op'] in LEVELS and
                well_formed(val['left']) and well_formed(val['right']))
    if key == 'function':
        return (isinstance(val, dict) and set(val) <= {'name', 'args'} and isinstance(val.get('name'), str) and
                isinstance(val.get('args', []), list) and all(well_formed(a) for a in val.get('args', [])))
    return False


def strip_groups(model):
    """The tree without 'group' nodes."""
    (key, val), = model.items()
    if key == 'group':
        return strip_groups(val)
    if key == 'unary':
        return {'unary': {'op': val['op'], 'expr': strip_groups(val['expr'])}}
    if key == 'binary':
        return {'binary': {'op': val['op'], 'left': strip_groups(val['left']), 'right': strip_groups(val['right'])}}
    if key == 'function':
        return {'function': {'name': val['name'], 'args': [strip_groups(a) for a in val.get('args', [])]}}
    return {key: val}


# ---------------------------------------------------------------------------------------------------------------------
# (iii) evaluator (appendix A.2)

MAX_EXACT = 2 ** 53
MS_RANGE = 3.2e14     # more milliseconds than the years 1..9999 span


class _Unspec(Exception):
    pass


class RefUndefinedFunction(Exception):
    """A call of a name that is not bound to a function (the language reports a runtime error)."""


def _finite(x):
    return not (math.isnan(x) or math.isinf(x))


def _neg_zero(x):
    return x == 0 and math.copysign(1.0, x) < 0


def _arith(op, a, b):
    """Numbers are doubles. Where exact integer arithmetic and double arithmetic would give different answers
    (integers beyond 2**53) the documentation does not choose: UNSPECIFIED."""
    both_int = isinstance(a, int) and isinstance(b, int)
    for x in (a, b):
        if isinstance(x, int) and abs(x) > MAX_EXACT:
            return UNSPECIFIED
        if isinstance(x, float) and not _finite(x):
            return UNSPECIFIED
    fa, fb = float(a), float(b)
    if op in ('+', '-', '*'):
        if both_int:
            r = a + b if op == '+' else (a - b if op == '-' else a * b)
            if r == 0 and _neg_zero(fa * fb if op == '*' else (fa + fb if op == '+' else fa - fb)):
                return UNSPECIFIED    # IEEE gives -0 (0 * -1); an integer carrier has no negative zero
            return r if abs(r) <= MAX_EXACT else UNSPECIFIED
        r = fa + fb if op == '+' else (fa - fb if op == '-' else fa * fb)
        return r if _finite(r) else UNSPECIFIED
    if op == '/':
        if fb == 0:
            return UNSPECIFIED
        r = fa / fb
        return r if _finite(r) else UNSPECIFIED
    if op == '%':
        if fb == 0:
            return UNSPECIFIED
        if math.copysign(1.0, fa) != math.copysign(1.0, fb):
            return UNSPECIFIED        # floored or truncated remainder: not documented
        r = math.fmod(fa, fb)
        if both_int:
            if _neg_zero(r):
                return UNSPECIFIED    # -4 % -2 is -0 for doubles; integer carriers have no negative zero
            return int(r)             # integer operands give an integer carrier (matters only for the sign of a later zero)
        return r if _finite(r) else UNSPECIFIED
    if op == '**':
        if fa == 0 and fb < 0:
            return UNSPECIFIED
        if fa < 0 and fb != math.floor(fb):
            return UNSPECIFIED        # not a real number
        try:
            r = math.pow(fa, fb)
        except (OverflowError, ValueError):
            return UNSPECIFIED
        if not _finite(r):
            return UNSPECIFIED
        if both_int and abs(r) > MAX_EXACT:
            return UNSPECIFIED
        if both_int and b >= 0:
            return int(r)             # integer carrier, as for + - * %
        return r
    raise ValueError(op)


def _shift(dt, ms):
    """datetime shifted by ms milliseconds (local naive result)."""
    if isinstance(ms, float) and not _finite(ms):
        return UNSPECIFIED
    if abs(ms) > MS_RANGE:
        return UNSPECIFIED
    if ms != math.floor(ms):
        return UNSPECIFIED            # a fraction of a millisecond: resolution is not documented
    base = rv.local_naive(dt)
    try:
        res = base + datetime.timedelta(days=int(ms) // 86400000, milliseconds=int(ms) % 86400000)
    except OverflowError:
        return UNSPECIFIED
    return res


def _is_dt(v):
    return rv.rtype(v) == 'datetime'


def binary_op(op, a, b):
    """Value of a non-short-circuit binary operator applied to two values (A.2), or UNSPECIFIED."""
    num_a, num_b = rv.is_number(a), rv.is_number(b)
    if op in ('==', '!=', '<', '<=', '>', '>='):
        c = rv.compare(a, b)
        return {'==': c == 0, '!=': c != 0, '<': c < 0, '<=': c <= 0, '>': c > 0, '>=': c >= 0}[op]
    if op == '+':
        if num_a and num_b:
            return _arith('+', a, b)
        if isinstance(a, str) or isinstance(b, str):
            try:
                sa, sb = rv.string(a), rv.string(b)
            except (ValueError, OverflowError):
                return UNSPECIFIED    # text of a datetime at the edge of the year range: its zone offset is not computable
            if sa is UNSPECIFIED or sb is UNSPECIFIED:
                return UNSPECIFIED
            return sa + sb
        if _is_dt(a) and num_b:
            return _shift(a, b)
        if num_a and _is_dt(b):
            return _shift(b, a)
        return None
    if op == '-':
        if num_a and num_b:
            return _arith('-', a, b)
        if _is_dt(a) and _is_dt(b):
            delta = rv.local_naive(a) - rv.local_naive(b)
            micros = (delta.days * 86400 + delta.seconds) * 1000000 + delta.microseconds
            if micros % 1000:
                return UNSPECIFIED    # rounding of sub-millisecond differences is not documented
            return micros // 1000
        return None
    if op in ('*', '/', '%', '**'):
        if num_a and num_b:
            return _arith(op, a, b)
        return None
    raise ValueError(op)


def unary_op(op, a):
    if op == '!':
        return not rv.truthy(a)
    if op == '-':
        if rv.is_number(a):
            if isinstance(a, int) and a == 0:
                return UNSPECIFIED    # IEEE: -(+0) is -0; an integer carrier has no negative zero
            return -a                 # IEEE negation: -(0.0) is -0.0, -(-0.0) is 0.0
        return None
    raise ValueError(op)


def _eval(expr, variables, functions, thru=False):
    """thru=False: an UNSPECIFIED sub-result aborts the evaluation (_Unspec). thru=True: it flows on as a value through
    everything that evaluates its operands unconditionally (so the effects of later operands still happen in the
    reference, in order), and aborts only where the *choice of what to evaluate* would depend on it (&&, ||, if)."""
    (key, val), = expr.items()
    if key == 'number':
        return val
    if key == 'string':
        return val
    if key == 'variable':
        if val == 'null':
            return None
        if val == 'true':
            return True
        if val == 'false':
            return False
        return variables.get(val)
    if key == 'group':
        return _eval(val, variables, functions, thru)
    if key == 'unary':
        operand = _eval(val['expr'], variables, functions, thru)
        if operand is UNSPECIFIED:
            return UNSPECIFIED
        return _known(unary_op(val['op'], operand), thru)
    if key == 'binary':
        op = val['op']
        left = _eval(val['left'], variables, functions, thru)
        if op in ('&&', '||'):
            if left is UNSPECIFIED:
                raise _Unspec()
            if op == '&&':
                return _eval(val['right'], variables, functions, thru) if rv.truthy(left) else left
            return left if rv.truthy(left) else _eval(val['right'], variables, functions, thru)
        right = _eval(val['right'], variables, functions, thru)
        if left is UNSPECIFIED or right is UNSPECIFIED:
            return UNSPECIFIED
        return _known(binary_op(op, left, right), thru)
    if key == 'function':
        name = val['name']
        args = val.get('args', [])
        if name == 'if':
            cond = _eval(args[0], variables, functions, thru) if len(args) >= 1 else False
            if cond is UNSPECIFIED:
                raise _Unspec()
            if rv.truthy(cond):
                return _eval(args[1], variables, functions, thru) if len(args) >= 2 else None
            return _eval(args[2], variables, functions, thru) if len(args) >= 3 else None
        bound_before = functions.get(name)
        values = [_eval(a, variables, functions, thru) for a in args]     # left to right, each exactly once
        func = functions.get(name)
        if func is not bound_before:
            # an argument re-bound the called name: whether the name is resolved before or after the arguments is not
            # documented (and with an unbound name on one side, neither is whether the run fails)
            raise _Unspec()
        if func is None:
            raise RefUndefinedFunction(name)     # only after all arguments were evaluated: their effects come first
        if any(v is UNSPECIFIED for v in values):
            return UNSPECIFIED        # the call is not modelled (callers pass effect-free functions in such positions)
        return _known(func(values), thru)
    raise ValueError(f'not an expression model: {key!r}')


def _known(v, thru=False):
    if v is UNSPECIFIED and not thru:
        raise _Unspec()
    return v


def evaluate(expr, variables=None, functions=None):
    """Value of the expression model, or UNSPECIFIED. `variables`: name -> value (unbound names are null);
    `functions`: name -> callable(list of argument values). Effects of the functions called happen in the documented
    order (operands left then right, arguments left to right, each once; && || if() lazily)."""
    try:
        return _eval(expr, variables or {}, functions or {})
    except _Unspec:
        return UNSPECIFIED


def evaluate_effects(expr, variables=None, functions=None):
    """(value or UNSPECIFIED, complete). Like evaluate, but an UNSPECIFIED operator result does not stop the reference:
    the remaining operands and arguments are still evaluated in the documented order, so the *effects* (which calls
    happen, in which order, how often) stay comparable even when the value is not. complete=False: a lazy construct
    (&&, ||, if) had to decide on an UNSPECIFIED value - the effects after that point are not defined either."""
    try:
        return _eval(expr, variables or {}, functions or {}, True), True
    except _Unspec:
        return UNSPECIFIED, False


# ---------------------------------------------------------------------------------------------------------------------
# self-test of the reference (run by mc/selftest.py): hand-written vectors, among them the repository's own documented
# precedence examples and operator rows


def _b(op, left, right):
    return {'binary': {'op': op, 'left': left, 'right': right}}


def selftest():
    def num(x):
        return {'number': float(x)}

    def var(x):
        return {'variable': x}

    assert parse('7 * 3 + 5') == _b('+', _b('*', num(7), num(3)), num(5))
    assert parse('7 + 3 * 5') == _b('+', num(7), _b('*', num(3), num(5)))
    assert parse('2 * 3 + 4 - 1') == _b('-', _b('+', _b('*', num(2), num(3)), num(4)), num(1))
    assert parse('1 + 2 / 3 / 4 * 5') == _b('+', num(1), _b('*', _b('/', _b('/', num(2), num(3)), num(4)), num(5)))
    assert parse('1 >= 2 && 3 < 4 - 5') == _b('&&', _b('>=', num(1), num(2)), _b('<', num(3), _b('-', num(4), num(5))))
    assert parse('(7 + 3) * 5') == _b('*', {'group': _b('+', num(7), num(3))}, num(5))
    assert parse('a ** b ** c') == _b('**', _b('**', var('a'), var('b')), var('c'))
    assert parse('-a ** b') == _b('**', {'unary': {'op': '-', 'expr': var('a')}}, var('b'))
    assert parse('a || b && c == d < e + f * g ** h') == _b('||', var('a'), _b('&&', var('b'), _b('==', var('c'), _b(
        '<', var('d'), _b('+', var('e'), _b('*', var('f'), _b('**', var('g'), var('h'))))))))
    assert parse("'ab \\'c\\' d\\\\e \\f'") == {'string': "ab 'c' d\\e \\f"}
    assert parse('test("abc \\\\", "def")') == {'function': {'name': 'test', 'args': [{'string': 'abc \\'}, {'string': 'def'}]}}
    assert parse('[a b] + [x\\]y]') == _b('+', var('a b'), var('x]y'))
    assert parse('a -1') == _b('-', var('a'), num(1)) and parse('a - -1') == _b('-', var('a'), num(-1))
    assert normal(parse('-1 ** 2')) == normal(_b('**', {'unary': {'op': '-', 'expr': num(1)}}, num(2)))
    assert parse('1e+3 + 1.') == _b('+', num(1000), num(1)) and parse('fn()') == {'function': {'name': 'fn', 'args': []}}
    for bad in ('', 'a +', 'a b', 'f(1)', '1e5', '+ 1', '+a', '.5', '()', 'fn(a,)', 'fn(,a)', '(a', 'a)', 'a ! b', 'a * * b', "'abc"):
        assert parse_outcome(bad)[0] == 'reject', bad
    assert parse_outcome("'a\\'")[0] == 'unspecified'

    date = datetime.datetime(2024, 1, 6)
    assert binary_op('+', 10, 2) == 12 and binary_op('+', 'foo', 2) == 'foo2' and binary_op('+', 2, 'foo') == '2foo'
    assert binary_op('+', date, 86400000) == datetime.datetime(2024, 1, 7)
    assert binary_op('+', -86400000, datetime.date(2024, 1, 6)) == datetime.datetime(2024, 1, 5)
    assert binary_op('-', datetime.datetime(2024, 1, 7), datetime.date(2024, 1, 6)) == 86400000
    assert binary_op('+', 2, None) is None and binary_op('-', 2, None) is None and binary_op('*', '2', 2) is None
    assert binary_op('+', True, 1) is None and unary_op('-', True) is None and unary_op('!', 0) is True
    assert math.copysign(1, unary_op('-', 0.0)) == -1 and math.copysign(1, unary_op('-', -0.0)) == 1 and unary_op('-', 0) is UNSPECIFIED
    assert math.copysign(1, binary_op('*', 0.0, -1)) == -1 and math.copysign(1, binary_op('-', 0.0, 0.0)) == 1
    assert binary_op('*', 0, -1) is UNSPECIFIED and binary_op('-', 1, 1) == 0 and binary_op('+', '', -0.0) == '-0'
    assert binary_op('/', 1, 0) is UNSPECIFIED and binary_op('%', -7, 3) is UNSPECIFIED and binary_op('%', 7, 3) == 1
    assert binary_op('**', -8, 0.5) is UNSPECIFIED and binary_op('**', 10, 1000) is UNSPECIFIED and binary_op('**', 2, 10) == 1024
    assert binary_op('<', None, 0) is True and binary_op('==', 1, 1.0) is True and binary_op('==', True, 1) is False
    assert binary_op('<', [1], [1, 2]) is True and binary_op('>=', 'a', 1) is True
    log = []

    def eff(vals):
        log.append(vals[0])
        return vals[0]

    def call(x):
        return {'function': {'name': 'eff', 'args': [x]}}

    funcs = {'eff': eff}
    assert evaluate(_b('&&', call(num(0)), call(num(1))), {}, funcs) == 0 and log == [0]
    del log[:]
    assert evaluate(_b('||', call(num(0)), call({'string': 'x'})), {}, funcs) == 'x' and log == [0, 'x']
    del log[:]
    assert evaluate({'function': {'name': 'if', 'args': [call(num(0)), call(num(1)), call(num(2))]}}, {}, funcs) == 2 and log == [0, 2]
    del log[:]
    assert evaluate({'function': {'name': 'if', 'args': [call(num(1)), call(num(3))]}}, {}, funcs) == 3 and log == [1, 3]
    assert evaluate({'function': {'name': 'if', 'args': [num(0), num(3)]}}) is None
    assert evaluate(_b('+', _b('/', num(1), num(0)), num(1))) is UNSPECIFIED
    assert evaluate(_b('+', {'variable': 'x'}, {'variable': 'true'}), {'x': 'v'}) == 'vtrue'
    del log[:]
    assert evaluate_effects(_b('>=', _b('/', call(num(1)), call(num(0))), call(num(2))), {}, funcs) == (UNSPECIFIED, True) and log == [1, 0, 2]
    del log[:]
    assert evaluate_effects(_b('&&', _b('%', call(num(1)), call(num(0))), call(num(2))), {}, funcs) == (UNSPECIFIED, False) and log == [1, 0]
    del log[:]
    try:
        evaluate({'function': {'name': 'nope', 'args': [call(num(1)), call(num(2))]}}, {}, funcs)
        raise AssertionError('undefined function not reported')
    except RefUndefinedFunction:
        assert log == [1, 2]
