"""Reference value model (DESIGN appendix A.1). Shares no code with bare_script.

Nine types; truthiness; the total preorder; stringification; a small JSON writer.
"""

import datetime
import math
import re

REGEX_TYPE = type(re.compile(''))
UNSPECIFIED = ('UNSPECIFIED',)

TYPE_NAMES = ('array', 'boolean', 'datetime', 'function', 'null', 'number', 'object', 'regex', 'string')


def rtype(v):
    if v is None:
        return 'null'
    if v is True or v is False:
        return 'boolean'
    if isinstance(v, str):
        return 'string'
    if isinstance(v, (int, float)):
        return 'number'
    if isinstance(v, datetime.date):
        return 'datetime'
    if isinstance(v, list):
        return 'array'
    if isinstance(v, dict):
        return 'object'
    if isinstance(v, REGEX_TYPE):
        return 'regex'
    if callable(v):
        return 'function'
    return None


def is_number(v):
    return isinstance(v, (int, float)) and v is not True and v is not False


def truthy(v):
    """null, false, 0, '' and [] are false; everything else is true."""
    t = rtype(v)
    if t == 'null':
        return False
    if t == 'boolean':
        return v
    if t == 'number':
        return v != 0
    if t == 'string':
        return len(v) > 0
    if t == 'array':
        return len(v) > 0
    return True


def local_naive(d):
    """A date is midnight; an aware datetime is converted to the process-local naive time."""
    if isinstance(d, datetime.datetime):
        if d.tzinfo is not None:
            return d.astimezone().replace(tzinfo=None)
        return d
    return datetime.datetime(d.year, d.month, d.day)


def sign(x):
    return -1 if x < 0 else (1 if x > 0 else 0)


def cmp_natural(a, b):
    return -1 if a < b else (1 if a > b else 0)


def compare(a, b):
    """Total preorder: null first; same type by natural order (arrays/objects element-wise); else by type name."""
    ta, tb = rtype(a), rtype(b)
    if ta == 'null' or tb == 'null':
        return (0 if tb == 'null' else -1) if ta == 'null' else 1
    if ta != tb:
        return cmp_natural(ta or 'unknown', tb or 'unknown')
    if ta in ('number', 'string', 'boolean'):
        return cmp_natural(a, b)
    if ta == 'datetime':
        return cmp_natural(local_naive(a), local_naive(b))
    if ta == 'array':
        for x, y in zip(a, b):
            c = compare(x, y)
            if c:
                return c
        return cmp_natural(len(a), len(b))
    if ta == 'object':
        ia = sorted(a.items(), key=lambda kv: kv[0])
        ib = sorted(b.items(), key=lambda kv: kv[0])
        for (ka, va), (kb, vb) in zip(ia, ib):
            c = cmp_natural(ka, kb)
            if c:
                return c
            c = compare(va, vb)
            if c:
                return c
        return cmp_natural(len(ia), len(ib))
    return 0   # functions, regexes: all equal


def number_text(x):
    """Shortest round-trip decimal, without an empty fraction."""
    if isinstance(x, int):
        return str(x)
    if math.isnan(x) or math.isinf(x):
        return UNSPECIFIED
    text = repr(x)
    if 'e' in text or 'E' in text:
        mant, exp = re.split('[eE]', text)
        if '.' in mant:
            mant = mant.rstrip('0').rstrip('.')
        return mant + 'e' + exp
    if '.' in text:
        text = text.rstrip('0').rstrip('.')
    return text


def datetime_text(d):
    """ISO-8601 local time, milliseconds only if non-zero, +hh:mm offset of the process time zone."""
    naive = local_naive(d)
    aware = naive.astimezone()
    off = aware.utcoffset()
    total = int(off.total_seconds())
    sgn = '+' if total >= 0 else '-'
    total = abs(total)
    hh, mm = total // 3600, (total % 3600) // 60
    ms = naive.microsecond // 1000
    base = f'{naive.year:04d}-{naive.month:02d}-{naive.day:02d}T{naive.hour:02d}:{naive.minute:02d}:{naive.second:02d}'
    if ms:
        base += f'.{ms:03d}'
    return f'{base}{sgn}{hh:02d}:{mm:02d}'


def string(v):
    t = rtype(v)
    if t == 'null':
        return 'null'
    if t == 'boolean':
        return 'true' if v else 'false'
    if t == 'number':
        return number_text(v)
    if t == 'string':
        return v
    if t == 'datetime':
        return datetime_text(v)
    if t in ('array', 'object'):
        return json_text(v)
    if t == 'function':
        return '<function>'
    if t == 'regex':
        return '<regex>'
    return UNSPECIFIED


_ESC = {'"': '\\"', '\\': '\\\\', '\n': '\\n', '\r': '\\r', '\t': '\\t', '\b': '\\b', '\f': '\\f'}


def json_string(s):
    out = ['"']
    for ch in s:
        if ch in _ESC:
            out.append(_ESC[ch])
        elif ord(ch) < 0x20:
            out.append(f'\\u{ord(ch):04x}')
        else:
            out.append(ch)
    out.append('"')
    return ''.join(out)


def json_text(v, _seen=()):
    """Compact JSON with sorted keys, integral numbers without fraction (ASCII escaping is not modelled:
    callers compare parsed values or restrict to ASCII)."""
    t = rtype(v)
    if t == 'null':
        return 'null'
    if t == 'boolean':
        return 'true' if v else 'false'
    if t == 'number':
        return number_text(v)
    if t == 'string':
        return json_string(v)
    if t == 'datetime':
        return json_string(datetime_text(v))
    if t == 'array':
        if id(v) in _seen:
            return UNSPECIFIED
        parts = [json_text(x, _seen + (id(v),)) for x in v]
        if any(p is UNSPECIFIED for p in parts):
            return UNSPECIFIED
        return '[' + ','.join(parts) + ']'
    if t == 'object':
        if id(v) in _seen:
            return UNSPECIFIED
        parts = []
        for k in sorted(v):
            p = json_text(v[k], _seen + (id(v),))
            if p is UNSPECIFIED:
                return UNSPECIFIED
            parts.append(json_string(k) + ':' + p)
        return '{' + ','.join(parts) + '}'
    if t == 'function':
        return json_string('<function>')
    return 'null'
