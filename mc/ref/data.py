"""Reference relational operators and reference CSV writer (DESIGN 4/C19). Shares no code with bare_script.

Written from the doc comments of /repo/src/bare_script/data.py (filter_data, sort_data, top_data, aggregate_data and the
aggregation model, join_data, add_calculated_field, validate_data) and of the data* functions in library.py, plus the
C19 property text. Everything is a list comprehension, `sorted` with the reference comparator, or a dict of lists.

A table is a list of row dicts. A field that is absent from a row has the value null (as everywhere in BareScript).
Nothing here mutates its arguments.
"""

import datetime
import fractions
import functools
import math
import re
import zoneinfo

from ..common import canon_flat
from . import values as rv

UNSPECIFIED = rv.UNSPECIFIED


# ---------------------------------------------------------------------------------------------------------------------
# Row expressions: a tiny AST with a printer (the text handed to the implementation) and an evaluator (appendix A.2)
#   ('var', name) | ('num', n) | ('null',) | ('bin', op, left, right)      op in == != < <= > >= + - * || &&
# ---------------------------------------------------------------------------------------------------------------------

def expr_text(e):
    kind = e[0]
    if kind == 'var':
        return e[1]
    if kind == 'num':
        return rv.number_text(e[1])
    if kind == 'null':
        return 'null'
    if kind == 'bin':
        return f'{_operand_text(e[2])} {e[1]} {_operand_text(e[3])}'
    raise ValueError(e)


def _operand_text(e):
    return f'({expr_text(e)})' if e[0] == 'bin' else expr_text(e)


def expr_eval(e, row, variables=None, globs=None):
    """Name lookup, innermost first: a field the row has (even when its value is null), then the `variables` argument,
    then the globals of the calling script; an unknown name is null."""
    kind = e[0]
    if kind == 'var':
        if e[1] in row:
            return row[e[1]]
        if variables is not None and e[1] in variables:
            return variables[e[1]]
        if globs is not None and e[1] in globs:
            return globs[e[1]]
        return None
    if kind == 'num':
        return e[1]
    if kind == 'null':
        return None
    op = e[1]
    left = expr_eval(e[2], row, variables, globs)
    if op == '||':
        return left if rv.truthy(left) else expr_eval(e[3], row, variables, globs)
    if op == '&&':
        return left if not rv.truthy(left) else expr_eval(e[3], row, variables, globs)
    right = expr_eval(e[3], row, variables, globs)
    if op in ('==', '!=', '<', '<=', '>', '>='):
        c = rv.compare(left, right)
        return {'==': c == 0, '!=': c != 0, '<': c < 0, '<=': c <= 0, '>': c > 0, '>=': c >= 0}[op]
    both_numbers = rv.is_number(left) and rv.is_number(right)
    if op == '+':
        if both_numbers:
            return left + right
        if isinstance(left, str):
            return left + rv.string(right)
        if isinstance(right, str):
            return rv.string(left) + right
        return None
    if op == '-':
        return left - right if both_numbers else None
    if op == '*':
        return left * right if both_numbers else None
    raise ValueError(e)


# ---------------------------------------------------------------------------------------------------------------------
# filter / calculated field / sort
# ---------------------------------------------------------------------------------------------------------------------

def ref_filter(rows, e, variables=None, globs=None):
    """Exactly the rows whose expression value is truthy, in order."""
    return [row for row in rows if rv.truthy(expr_eval(e, row, variables, globs))]


def ref_calculated(rows, name, e, variables=None, globs=None):
    """Every row with field `name` set to the expression value computed on that row."""
    return [{**row, name: expr_eval(e, row, variables, globs)} for row in rows]


def row_compare(sorts, row1, row2):
    """sorts: list of [field] or [field, descending]."""
    for sort in sorts:
        c = rv.compare(row1.get(sort[0]), row2.get(sort[0]))
        if len(sort) > 1 and sort[1]:
            c = -c
        if c:
            return c
    return 0


def ref_sort(rows, sorts):
    """Stable: Python's sorted keeps the input order of rows that compare equal."""
    return sorted(rows, key=functools.cmp_to_key(functools.partial(row_compare, sorts)))


# ---------------------------------------------------------------------------------------------------------------------
# categories: dict of lists keyed by the canonical category values
# ---------------------------------------------------------------------------------------------------------------------

def group_key(row, fields):
    return () if fields is None else tuple(canon_flat(row.get(f)) for f in fields)


def ref_groups(rows, fields):
    groups = {}
    for row in rows:
        groups.setdefault(group_key(row, fields), []).append(row)
    return groups


def ref_top(rows, count, fields):
    """category key -> the first `count` rows of the category, in order (the order *between* categories is not stated)."""
    return {key: members[:count] for key, members in ref_groups(rows, fields).items()}


# ---------------------------------------------------------------------------------------------------------------------
# aggregate
# ---------------------------------------------------------------------------------------------------------------------

AGG_FUNCTIONS = ('count', 'sum', 'min', 'max', 'average', 'stddev')


def aggregate_value(func, values):
    """values: the measure values of one category *including* nulls. Returns a tuple of acceptable results or
    UNSPECIFIED. Aggregates are over the non-null values only. Open corners: no non-null value at all (count 0 or
    null? sum 0 or null?), non-number values for anything but count, population versus sample standard deviation
    (both accepted; with one value the sample deviation is undefined so null is accepted next to 0)."""
    vals = [v for v in values if v is not None]
    if not vals:
        return UNSPECIFIED
    if func == 'count':
        return (len(vals),)
    if not all(rv.is_number(v) for v in vals):
        return UNSPECIFIED
    n = len(vals)
    if func == 'sum':
        return (math.fsum(vals),)
    if func == 'min':
        return (functools.reduce(lambda x, y: y if rv.compare(y, x) < 0 else x, vals),)
    if func == 'max':
        return (functools.reduce(lambda x, y: y if rv.compare(y, x) > 0 else x, vals),)
    mean = math.fsum(vals) / n
    if func == 'average':
        return (mean,)
    if func == 'stddev':
        squares = math.fsum((v - mean) ** 2 for v in vals)
        population = math.sqrt(squares / n)
        return (population, math.sqrt(squares / (n - 1))) if n > 1 else (population, None)
    raise ValueError(func)


def aggregate_value_exact(func, values):
    """Like aggregate_value, for numerically delicate measure values: the result is computed exactly with fractions
    (two-pass population deviation, then one correctly rounded square root) and every acceptable result comes with an
    absolute tolerance that any sound floating-point evaluation meets - a plain left-to-right sum (error below
    n * eps * sum|x|) and a two-pass deviation (error below a few eps * max|x|) - namely
        sum: 1e-13 * sum|x|        average: 1e-13 * sum|x| / n        stddev: 1e-12 * value + 1e-13 * max|x|
    (eps = 1.1e-16). A one-pass sqrt(E[x^2] - E[x]^2) misses the stddev tolerance by orders of magnitude on
    large-offset data. Returns a tuple of (value, tolerance) pairs or UNSPECIFIED."""
    vals = [v for v in values if v is not None]
    if not vals:
        return UNSPECIFIED
    if func == 'count':
        return ((len(vals), 0),)
    if not all(rv.is_number(v) for v in vals):
        return UNSPECIFIED
    n = len(vals)
    exact = [fractions.Fraction(v) for v in vals]
    total = sum(exact, fractions.Fraction(0))
    sum_abs = float(sum((abs(x) for x in exact), fractions.Fraction(0)))
    max_abs = float(max(abs(x) for x in exact))
    if func == 'sum':
        return ((float(total), 1e-13 * sum_abs),)
    if func == 'min':
        return ((min(vals), 0),)
    if func == 'max':
        return ((max(vals), 0),)
    mean = total / n
    if func == 'average':
        return ((float(mean), 1e-13 * sum_abs / n),)
    if func == 'stddev':
        squares = sum(((x - mean) ** 2 for x in exact), fractions.Fraction(0))
        population = math.sqrt(float(squares / n))
        out = [(population, 1e-12 * population + 1e-13 * max_abs)]
        if n > 1:
            sample = math.sqrt(float(squares / (n - 1)))
            out.append((sample, 1e-12 * sample + 1e-13 * max_abs))
        else:
            out.append((None, 0))
        return tuple(out)
    raise ValueError(func)


def value_within(got, accepted):
    """accepted: a plain value (null or a number, relative tolerance 1e-12) or a (value, absolute tolerance) pair."""
    if isinstance(accepted, tuple):
        value, tol = accepted
        if value is None:
            return got is None
        return rv.is_number(got) and abs(got - value) <= tol
    if accepted is None:
        return got is None
    return number_close(got, accepted)


def ref_aggregate(rows, categories, measures, exact=False):
    """measures: list of (field, function, output name). Returns category key -> (category values, {output name:
    acceptable results | UNSPECIFIED}); one entry per distinct category (the partition)."""
    out = {}
    for key, members in ref_groups(rows, categories).items():
        cats = {} if categories is None else {c: members[0].get(c) for c in categories}
        value = aggregate_value_exact if exact else aggregate_value
        out[key] = (cats, {name: value(func, [m.get(field) for m in members]) for field, func, name in measures})
    return out


def number_close(x, y, rel=1e-12):
    if not rv.is_number(x) or not rv.is_number(y):
        return False
    return x == y or abs(x - y) <= rel * max(abs(x), abs(y))


# ---------------------------------------------------------------------------------------------------------------------
# join
# ---------------------------------------------------------------------------------------------------------------------

def table_fields(rows):
    names = []
    for row in rows:
        for name in row:
            if name not in names:
                names.append(name)
    return names


def join_names(left_rows, right_rows):
    """The unique-name rule: a right field keeps its name unless a left row has a field of that name; then it becomes
    name2, name3, ... - the first one that is neither a left field, nor a right field, nor already given away."""
    left = table_fields(left_rows)
    right = table_fields(right_rows)
    mapping = {}
    for name in right:
        if name not in left:
            mapping[name] = name
            continue
        k = 2
        while f'{name}{k}' in left or f'{name}{k}' in right or f'{name}{k}' in mapping.values():
            k += 1
        mapping[name] = f'{name}{k}'
    return mapping


def ref_join(left_rows, right_rows, left_e, right_e=None, variables=None, globs=None):
    """Returns one block per left row, in order: ('matched', [joined rows in right-row order]) or
    ('unmatched', [the left row]). Two key values are equal when the reference comparison says 0."""
    right_e = left_e if right_e is None else right_e
    mapping = join_names(left_rows, right_rows)
    right_keys = [expr_eval(right_e, row, variables, globs) for row in right_rows]
    blocks = []
    for left in left_rows:
        key = expr_eval(left_e, left, variables, globs)
        partners = [row for row, rk in zip(right_rows, right_keys) if rv.compare(key, rk) == 0]
        if partners:
            blocks.append(('matched', [{**left, **{mapping[n]: v for n, v in row.items()}} for row in partners]))
        else:
            blocks.append(('unmatched', [dict(left)]))
    return blocks


def join_flatten(blocks, keep_unmatched):
    return [row for kind, rows in blocks if kind == 'matched' or keep_unmatched for row in rows]


# ---------------------------------------------------------------------------------------------------------------------
# CSV writer (RFC 4180 quoting) for typed tables
#   a cell is (value, style): style picks one of the documented spellings of the value
#     null:      'null' -> the text null        'empty' -> the empty text (not for string columns: '' is a string)
#     number:    'num'  -> shortest decimal
#     boolean:   'bool' -> true / false
#     datetime:  'iso'  -> local ISO text with offset   'z' -> UTC ISO text with Z   'date' -> YYYY-MM-DD (midnight only)
#     string:    'str'  -> the text itself
# ---------------------------------------------------------------------------------------------------------------------

def cell_text(value, style):
    if value is None:
        return {'null': 'null', 'empty': ''}[style]
    if style == 'num':
        return rv.number_text(value)
    if style == 'bool':
        return 'true' if value else 'false'
    if style == 'iso':
        return rv.datetime_text(value)
    if style == 'z':
        utc = value.astimezone(datetime.timezone.utc)
        text = f'{utc.year:04d}-{utc.month:02d}-{utc.day:02d}T{utc.hour:02d}:{utc.minute:02d}:{utc.second:02d}'
        if utc.microsecond:
            text += f'.{utc.microsecond // 1000:03d}'
        return text + 'Z'
    if style == 'date':
        assert (value.hour, value.minute, value.second, value.microsecond) == (0, 0, 0, 0)
        return f'{value.year:04d}-{value.month:02d}-{value.day:02d}'
    if style == 'str':
        return value
    raise ValueError(style)


def csv_quote(text):
    """Quote when the text has a comma, a quote, a line break, or starts/ends with a blank; quotes are doubled."""
    if any(ch in text for ch in ',"\r\n') or text != text.strip(' \t'):
        return '"' + text.replace('"', '""') + '"'
    return text


def csv_lines(fields, rows):
    """rows: list of lists of (value, style) cells, one per field. Returns the header line and one line per row."""
    lines = [','.join(csv_quote(name) for name in fields)]
    for cells in rows:
        lines.append(','.join(csv_quote(cell_text(value, style)) for value, style in cells))
    return lines


# ---------------------------------------------------------------------------------------------------------------------
# datetimes in a named time zone (CSV under a process time zone that has daylight saving time)
#   an instant is a naive UTC datetime; its text carries an explicit offset; reading it gives the naive local time of
#   the zone *with the offset in force at that instant* (zoneinfo rules, independent of the process TZ / time.tzset)
# ---------------------------------------------------------------------------------------------------------------------

def zone_offset_minutes(instant_utc, zone):
    aware = instant_utc.replace(tzinfo=datetime.timezone.utc).astimezone(zoneinfo.ZoneInfo(zone))
    return int(aware.utcoffset().total_seconds()) // 60


def zone_local(instant_utc, zone):
    return instant_utc.replace(tzinfo=datetime.timezone.utc).astimezone(zoneinfo.ZoneInfo(zone)).replace(tzinfo=None)


def instant_text(instant_utc, offset_minutes, zulu=False):
    """ISO text of the instant as seen at the given offset: YYYY-MM-DDTHH:MM:SS[.mmm] followed by Z or +hh:mm / -hh:mm."""
    shown = instant_utc + datetime.timedelta(minutes=offset_minutes)
    text = f'{shown.year:04d}-{shown.month:02d}-{shown.day:02d}T{shown.hour:02d}:{shown.minute:02d}:{shown.second:02d}'
    if shown.microsecond:
        text += f'.{shown.microsecond // 1000:03d}'
    if zulu:
        assert offset_minutes == 0
        return text + 'Z'
    sign = '-' if offset_minutes < 0 else '+'
    return f'{text}{sign}{abs(offset_minutes) // 60:02d}:{abs(offset_minutes) % 60:02d}'


_EDGE_TEXT = re.compile(r'^(\d{4})-(\d{2})-(\d{2})T(\d{2}):(\d{2}):(\d{2})(Z|[+-]\d{2}:\d{2})$')
_FIRST_SECOND = datetime.date(1, 1, 1).toordinal() * 86400
_LAST_SECOND = datetime.date(9999, 12, 31).toordinal() * 86400 + 86399


def edge_datetime(text, zone):
    """A well-formed ISO text with an offset near the ends of the calendar: the naive local time in `zone`, or None when
    that local time does not exist in years 1..9999 (then the text merely resembles a date and stays a string).
    The instant is computed in integer seconds so that nothing overflows here; UNSPECIFIED when the instant itself lies
    outside years 1..9999 by less than 16 hours (a zone offset could bring it back; not needed for the enumerated cells)."""
    m = _EDGE_TEXT.match(text)
    year, month, day, hour, minute, second = (int(m.group(i)) for i in range(1, 7))
    off = m.group(7)
    offset_minutes = 0 if off == 'Z' else (-1 if off[0] == '-' else 1) * (int(off[1:3]) * 60 + int(off[4:6]))
    instant = datetime.date(year, month, day).toordinal() * 86400 + hour * 3600 + minute * 60 + second - offset_minutes * 60
    if instant < _FIRST_SECOND or instant > _LAST_SECOND:
        if instant < _FIRST_SECOND - 16 * 3600 or instant > _LAST_SECOND + 16 * 3600:
            return None
        return UNSPECIFIED
    utc = (datetime.datetime(1, 1, 1) + datetime.timedelta(seconds=instant - _FIRST_SECOND)).replace(tzinfo=datetime.timezone.utc)
    try:
        return utc.astimezone(zoneinfo.ZoneInfo(zone)).replace(tzinfo=None)
    except (OverflowError, ValueError):
        return None


# ---------------------------------------------------------------------------------------------------------------------
# reference civil calendar (proleptic Gregorian, years 1..9999): which date texts name a day that exists
# ---------------------------------------------------------------------------------------------------------------------

MONTH_MAX = (31, 29, 31, 30, 31, 30, 31, 31, 30, 31, 30, 31)      # the longest each month ever gets


def is_leap(year):
    return year % 4 == 0 and (year % 100 != 0 or year % 400 == 0)


def days_in_month(year, month):
    return 28 + is_leap(year) if month == 2 else MONTH_MAX[month - 1]


def civil_exists(year, month, day):
    return 1 <= year <= 9999 and 1 <= month <= 12 and 1 <= day <= days_in_month(year, month)
