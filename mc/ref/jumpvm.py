"""Reference small-step machine for jump-level BareScript models (DESIGN appendix A.6). No code shared with
bare_script. It executes a schema-valid model (dict) with a program counter:

  count one statement (limit L: raise when statement L+1 would start); dispatch
    expr      evaluate; assign to locals inside a function, else to globals
    jump      if no condition or the condition is truthy: pc := index of the FIRST label of that name in THIS list,
              else raise Unknown jump label "<name>"
    return    evaluate and leave this list
    function  bind a closure over the definition in globals
    include   for each entry: resolve, load, run the child's list with locals = None under the same counter
    label     nothing
  then pc += 1

The expression evaluator covers the model-level expression forms with the operators the generated programs use.
"""

from . import values as rv


class RefRuntimeError(Exception):
    pass


class Closure:
    def __init__(self, fdef):
        self.fdef = fdef
        self.func = 'script'
        self.args = ({'name': fdef['name'], 'statements': []},)

    def __call__(self, *a, **k):
        raise RuntimeError('reference closures are called by the reference machine only')


class Machine:
    def __init__(self, globals_, host, log, limit=0, lib=None, loader=None, resolver=None, system_prefix=None):
        self.g = globals_
        self.host = host            # name -> callable(args)
        self.lib = lib or {}        # name -> callable(machine, args)
        self.log = log
        self.limit = limit          # 0 = unlimited
        self.count = 0
        self.loader = loader        # url -> statements list | None (missing) ; may raise RefRuntimeError
        self.resolver = resolver    # (base, url) -> url
        self.system_prefix = system_prefix
        self.fetches = []

    # ---- expressions
    def ev(self, e, loc):
        (k, v), = e.items()
        if k == 'number':
            return v
        if k == 'string':
            return v
        if k == 'variable':
            if v == 'null':
                return None
            if v == 'true':
                return True
            if v == 'false':
                return False
            if loc is not None and v in loc:
                return loc[v]
            return self.g.get(v)
        if k == 'group':
            return self.ev(v, loc)
        if k == 'unary':
            x = self.ev(v['expr'], loc)
            if v['op'] == '!':
                return not rv.truthy(x)
            return -x if rv.is_number(x) else None
        if k == 'binary':
            op = v['op']
            left = self.ev(v['left'], loc)
            if op == '&&':
                return left if not rv.truthy(left) else self.ev(v['right'], loc)
            if op == '||':
                return left if rv.truthy(left) else self.ev(v['right'], loc)
            right = self.ev(v['right'], loc)
            return binop(op, left, right)
        if k == 'function':
            name = v['name']
            if name == 'if':
                # the hard-wired special form: condition first, then only the selected arm; missing arms are null
                arms = v.get('args') or []
                cond = self.ev(arms[0], loc) if len(arms) >= 1 else False
                pick = 1 if rv.truthy(cond) else 2
                return self.ev(arms[pick], loc) if len(arms) > pick else None
            args = [self.ev(a, loc) for a in v.get('args', [])]
            return self.call(name, args, loc)
        raise ValueError(k)

    def call(self, name, args, loc):
        if loc is not None and name in loc:
            fn = loc[name]
        elif name in self.g:
            fn = self.g[name]
        elif name in self.host:
            return self.host[name](args)
        elif name in self.lib:
            return self.lib[name](self, args)
        else:
            raise RefRuntimeError(f'Undefined function "{name}"')
        return self.apply(fn, args, name)

    def apply(self, fn, args, name='?'):
        if isinstance(fn, Closure):
            fdef = fn.fdef
            params = fdef.get('args')
            loc = {}
            if params is not None:
                n = len(params)
                last = bool(fdef.get('lastArgArray'))
                for i, p in enumerate(params):
                    if last and i == n - 1:
                        loc[p] = list(args[i:]) if i < len(args) else []
                    else:
                        loc[p] = args[i] if i < len(args) else None
            return self.run(fdef['statements'], loc, self.base)
        if fn is None:
            raise RefRuntimeError(f'Undefined function "{name}"')
        if hasattr(fn, 'ref_apply'):
            return fn.ref_apply(self, args)
        if callable(fn) and getattr(fn, 'ref_host', False):
            return fn(args)
        return None     # a non-function value in call position: contained failure -> null

    # ---- statements
    base = None

    def run(self, statements, loc, base=None):
        pc = 0
        n = len(statements)
        while pc < n:
            st = statements[pc]
            (k, v), = st.items()
            self.count += 1
            if self.limit > 0 and self.count > self.limit:
                raise RefRuntimeError(f'Exceeded maximum script statements ({self.limit})')
            if k == 'expr':
                val = self.ev(v['expr'], loc)
                if 'name' in v:
                    if loc is not None:
                        loc[v['name']] = val
                    else:
                        self.g[v['name']] = val
            elif k == 'jump':
                if 'expr' not in v or rv.truthy(self.ev(v['expr'], loc)):
                    target = next((i for i, s in enumerate(statements) if s.get('label') == v['label']), None)
                    if target is None:
                        raise RefRuntimeError(f'Unknown jump label "{v["label"]}"')
                    pc = target
            elif k == 'return':
                return self.ev(v['expr'], loc) if 'expr' in v else None
            elif k == 'function':
                self.g[v['name']] = Closure(v)
            elif k == 'include':
                for inc in v['includes']:
                    url = inc['url']
                    if inc.get('system') and self.system_prefix is not None:
                        url = self.resolver(self.system_prefix, url)
                    elif base is not None:
                        url = self.resolver(base, url)
                    self.fetches.append(url)
                    child = self.loader(url) if self.loader is not None else None
                    if child is None:
                        raise RefRuntimeError(f'Include of "{url}" failed')
                    saved = self.base
                    self.base = url
                    try:
                        self.run(child, None, url)
                    finally:
                        self.base = saved
            elif k == 'label':
                pass
            else:
                raise ValueError(k)
            pc += 1
        return None


def binop(op, a, b):
    if op in ('==', '!=', '<', '<=', '>', '>='):
        c = rv.compare(a, b)
        return {'==': c == 0, '!=': c != 0, '<': c < 0, '<=': c <= 0, '>': c > 0, '>=': c >= 0}[op]
    if op == '+':
        if rv.is_number(a) and rv.is_number(b):
            return a + b
        if isinstance(a, str) or isinstance(b, str):
            return (a if isinstance(a, str) else rv.string(a)) + (b if isinstance(b, str) else rv.string(b))
        return None
    if op in ('-', '*'):
        if rv.is_number(a) and rv.is_number(b):
            return a - b if op == '-' else a * b
        return None
    raise ValueError('operator outside the generated alphabet: ' + op)


def lib_basic():
    """Reference models of the library functions that generated models / for-loop lowerings call."""
    def system_log(m, args):
        m.log.append(rv.string(args[0] if args else None))

    def array_new(m, args):  # pylint: disable=unused-argument
        return list(args)

    def array_length(m, args):  # pylint: disable=unused-argument
        return len(args[0]) if args and isinstance(args[0], list) else 0

    def array_get(m, args):  # pylint: disable=unused-argument
        if len(args) == 2 and isinstance(args[0], list) and rv.is_number(args[1]) and args[1] == int(args[1]) and 0 <= args[1] < len(args[0]):
            return args[0][int(args[1])]
        return None

    return {'systemLog': system_log, 'arrayNew': array_new, 'arrayLength': array_length, 'arrayGet': array_get}


def selftest():
    log = []
    m = Machine({}, {}, log, lib=lib_basic())
    sts = [
        {'expr': {'name': 'x', 'expr': {'number': 0}}},
        {'label': 'A'},
        {'expr': {'name': 'x', 'expr': {'binary': {'op': '+', 'left': {'variable': 'x'}, 'right': {'number': 1}}}}},
        {'jump': {'label': 'A', 'expr': {'binary': {'op': '<', 'left': {'variable': 'x'}, 'right': {'number': 3}}}}},
        {'return': {'expr': {'variable': 'x'}}},
    ]
    assert m.run(sts, None) == 3 and m.count == 9, m.count
