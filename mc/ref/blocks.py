"""Reference for the line/block structure of BareScript source text (DESIGN appendix A.4; used by C06, C07).

Two independent pieces, written from the language description and sharing no code with ``bare_script``:

* ``logical_lines(text)``  - the line joiner: physical lines are separated by LF (an optional CR before it is dropped);
  a line that is blank or whose first non-blank character is ``#`` is a comment line and is skipped; a line whose last
  non-blank character is a backslash is continued on the next non-comment line - comment lines between the pieces are
  skipped like anywhere else - (the first piece loses the backslash and
  its trailing blanks, every later piece is trimmed on both sides, pieces are joined by one space). Every logical line
  knows the 1-based number of the physical line it starts on.
* ``run_blocks(items)``    - the push-down automaton over block keyword lines. It says *accept* or gives the set of
  ADMISSIBLE fault lines: more than one line can reasonably be blamed for a structural fault (the line at which the
  automaton gets stuck, or the opening line of the block that is therefore unclosed), so a diagnostic is right when it
  names any line of the set.
"""

OPENERS = ('if', 'while', 'for')
CLOSERS = {'endif': 'if', 'endwhile': 'while', 'endfor': 'for'}
KINDS = ('function', 'endfunction', 'if', 'elif', 'else', 'endif', 'while', 'endwhile', 'for', 'endfor', 'break', 'continue', 'other')


class Logical:
    """One logical line: start/end physical line numbers (1-based, inclusive), joined text, the raw physical lines."""

    __slots__ = ('start', 'end', 'text', 'raws', 'pending', 'interrupted')

    def __init__(self, start, end, text, raws, pending=False, interrupted=False):
        self.start = start
        self.end = end
        self.text = text
        self.raws = raws
        self.pending = pending            # the text ended while a continuation was still open
        self.interrupted = interrupted    # a BLANK line sits between the pieces (comment lines there are documented as fine)

    def __repr__(self):
        return f'Logical({self.start}-{self.end} {self.text!r}{" pending" if self.pending else ""})'


def physical_lines(text):
    parts = text.split('\n')
    last = len(parts) - 1
    return [p[:-1] if (i < last and p.endswith('\r')) else p for i, p in enumerate(parts)]


def is_comment(raw):
    s = raw.strip()
    return s == '' or s[0] == '#'


def logical_lines(text):
    """-> list[Logical] in source order (comment lines produce nothing)."""
    out = []
    pieces = None
    raws = None
    start = 0
    last = 0
    interrupted = False
    for number, raw in enumerate(physical_lines(text), 1):
        if is_comment(raw):
            if pieces is not None and raw.strip() == '':
                interrupted = True
            continue
        trimmed = raw.rstrip()
        continued = trimmed.endswith('\\')
        if pieces is None:
            if not continued:
                out.append(Logical(number, number, raw, [raw]))
                continue
            pieces = [trimmed[:-1].rstrip()]
            raws = [raw]
            start = last = number
            interrupted = False
            continue
        raws.append(raw)
        last = number
        if continued:
            pieces.append(trimmed[:-1].strip())
            continue
        pieces.append(raw.strip())
        out.append(Logical(start, number, ' '.join(pieces), raws, False, interrupted))
        pieces = None
    if pieces is not None:
        out.append(Logical(start, last, ' '.join(pieces), raws, True, interrupted))
    return out


def classify(line):
    """Keyword kind of a (logical) line of a *well-formed* program, or 'other'. Deliberately simple: it is only applied to
    lines of programs that are valid by construction (generated corpus, shipped include files) - how a malformed keyword
    line is treated is the implementation's business."""
    s = line.strip()
    if s in ('endif', 'endwhile', 'endfor', 'endfunction', 'break', 'continue'):
        return s
    if not s.endswith(':'):
        return 'other'
    body = s[:-1].rstrip()
    if body == 'else':
        return 'else'
    words = body.split()
    if len(words) >= 2:
        if words[0] in ('if', 'elif', 'while'):
            return words[0]
        if words[0] == 'for' and 'in' in words[2:]:
            return 'for'
        if body.endswith(')') and (words[0] == 'function' or (words[0] == 'async' and words[1] == 'function')):
            return 'function'
    return 'other'


class Verdict:
    __slots__ = ('accept', 'admissible', 'reason', 'stuck', 'unclosed')

    def __init__(self, accept, admissible=(), reason=None, stuck=None, unclosed=None):
        self.accept = accept
        self.admissible = frozenset(admissible)
        self.reason = reason
        self.stuck = stuck          # line at which a transition is refused (None for end-of-input faults)
        self.unclosed = unclosed    # opening line of the innermost unclosed block / function, when there is one

    def __repr__(self):
        return 'accept' if self.accept else f'reject({self.reason}, lines {sorted(self.admissible)})'


def run_blocks(items, pending_line=None):
    """items: iterable of (kind, line_number) for the logical lines in order. pending_line: number of the logical line
    that is still waiting for its continuation at end of input, if any.

    State: a stack of open blocks [kind, line, has_else] and an optional open function (line, floor)."""
    stack = []
    func = None
    for kind, number in items:
        floor = func[1] if func is not None else 0
        top = stack[-1] if len(stack) > floor else None
        inner = (top[1],) if top is not None else ()
        if kind == 'function':
            if func is not None:
                return Verdict(False, (number, func[0]), 'nested function', number, func[0])
            func = (number, len(stack))
        elif kind == 'endfunction':
            if func is None:
                return Verdict(False, (number,), 'endfunction without function', number)
            if top is not None:
                return Verdict(False, (number,) + inner, 'endfunction with a block still open', number, top[1])
            func = None
        elif kind in OPENERS:
            stack.append([kind, number, False])
        elif kind in ('elif', 'else'):
            if top is None or top[0] != 'if':
                return Verdict(False, (number,) + inner, kind + ' without if', number, inner[0] if inner else None)
            if top[2]:
                return Verdict(False, (number,) + inner, kind + ' after else', number, top[1])
            if kind == 'else':
                top[2] = True
        elif kind in CLOSERS:
            if top is None or top[0] != CLOSERS[kind]:
                return Verdict(False, (number,) + inner, kind + ' without matching ' + CLOSERS[kind], number, inner[0] if inner else None)
            stack.pop()
        elif kind in ('break', 'continue'):
            if not any(entry[0] != 'if' for entry in stack[floor:]):
                return Verdict(False, (number,), kind + ' outside of a loop of the same function', number)
    faults = []
    innermost = None
    if pending_line is not None:
        faults.append(pending_line)
    if stack:
        faults.extend(entry[1] for entry in stack)
        innermost = stack[-1][1]
    if func is not None:
        faults.append(func[0])
        if innermost is None or len(stack) <= func[1]:
            innermost = func[0]
    if faults:
        return Verdict(False, faults, 'open at end of input', None, innermost)
    return Verdict(True)


def selftest():
    """The reference against the examples the repository's own tests document (continuation with comments, block errors)."""
    text = "# Comments don't continue \\\na = arrayNew( \\\n    # Comments are OK within a continuation...\n    1, \\\n" \
           "    # ...with or without a continuation backslash \\\n    2 \\\n)\n"
    lls = logical_lines(text)
    assert [(ll.start, ll.end, ll.text, ll.pending, ll.interrupted) for ll in lls] == [(2, 7, 'a = arrayNew( 1, 2 )', False, False)], lls
    lls = logical_lines('    fn1(arg1, \\\n    fn2(),\n    null))\n')
    assert [(ll.start, ll.text) for ll in lls] == [(1, '    fn1(arg1, fn2(),'), (3, '    null))')], lls
    assert logical_lines('a = 1 \\')[0].pending and logical_lines('a\r\nb')[1].text == 'b'

    def verdict(*kinds):
        return run_blocks([(k, n + 1) for n, k in enumerate(kinds)])
    assert verdict('if', 'elif', 'else', 'endif', 'while', 'break', 'endwhile', 'function', 'for', 'continue', 'endfor', 'endfunction').accept
    assert verdict('if', 'else', 'elif', 'endif').admissible == {3, 1}
    assert verdict('while', 'function', 'break', 'endfunction', 'endwhile').admissible == {3}
    assert verdict('function', 'if', 'endfunction').admissible == {3, 2}
    assert verdict('if', 'function', 'endif', 'endfunction').admissible == {3}
    assert verdict('function', 'function').admissible == {2, 1}
    assert verdict('while', 'if').admissible == {1, 2} and verdict('function').admissible == {1}
    assert verdict('other').accept and not run_blocks([('other', 1)], pending_line=1).accept
    assert [classify(s) for s in ('  if x :', 'else:', 'for a, b in c:', 'async function f(a...):', 'lbl:', 'endif ', 'if x')] == \
        ['if', 'else', 'for', 'function', 'other', 'endif', 'other']
