"""Independent strict JSON lexer / parser (RFC 8259) for C14. Shares no code with bare_script and does not use `json`.

lex(text)    -> list of tokens (kind, start, end, value); white space between tokens is kept as 'ws' tokens.
parse(tokens)-> (value, info) where info records, in text order: the key list of every object, every number token
                (text, value, integral?), and for every white-space token the nesting depth of the token that follows.
equal(a, b)  -> structural equality of JSON values: numbers by numeric value (1 == 1.0, -0.0 == 0), booleans are not
                numbers, strings by code points, objects by key set.
"""

import re

from . import numtext

_NUMBER = re.compile(r'-?(?:0|[1-9][0-9]*)(?:\.[0-9]+)?(?:[eE][+-]?[0-9]+)?')
_WS = re.compile(r'[ \t\n\r]+')
_HEX = '0123456789abcdefABCDEF'
_SIMPLE_ESC = {'"': '"', '\\': '\\', '/': '/', 'b': '\b', 'f': '\f', 'n': '\n', 'r': '\r', 't': '\t'}
_LITERALS = (('true', True), ('false', False), ('null', None))


class JsonError(Exception):
    def __init__(self, what, pos):
        super().__init__(f'{what} at offset {pos}')
        self.what = what
        self.pos = pos


def _lex_string(text, pos):
    """text[pos] == '"'. Returns (end, decoded)."""
    out = []
    i = pos + 1
    n = len(text)
    while True:
        if i >= n:
            raise JsonError('unterminated string', pos)
        ch = text[i]
        if ch == '"':
            return i + 1, ''.join(out)
        if ch == '\\':
            if i + 1 >= n:
                raise JsonError('unterminated escape', i)
            esc = text[i + 1]
            if esc in _SIMPLE_ESC:
                out.append(_SIMPLE_ESC[esc])
                i += 2
                continue
            if esc != 'u':
                raise JsonError('invalid escape', i)
            hexs = text[i + 2:i + 6]
            if len(hexs) != 4 or any(h not in _HEX for h in hexs):
                raise JsonError('invalid \\u escape', i)
            unit = int(hexs, 16)
            i += 6
            if 0xD800 <= unit <= 0xDBFF and text[i:i + 2] == '\\u':
                hex2 = text[i + 2:i + 6]
                if len(hex2) == 4 and all(h in _HEX for h in hex2):
                    low = int(hex2, 16)
                    if 0xDC00 <= low <= 0xDFFF:
                        out.append(chr(0x10000 + ((unit - 0xD800) << 10) + (low - 0xDC00)))
                        i += 6
                        continue
            out.append(chr(unit))
            continue
        if ord(ch) < 0x20:
            raise JsonError('unescaped control character in string', i)
        out.append(ch)
        i += 1


def lex(text):
    tokens = []
    i = 0
    n = len(text)
    while i < n:
        ch = text[i]
        if ch in '{}[],:':
            tokens.append((ch, i, i + 1, None))
            i += 1
            continue
        if ch == '"':
            end, val = _lex_string(text, i)
            tokens.append(('string', i, end, val))
            i = end
            continue
        m = _WS.match(text, i)
        if m is not None:
            tokens.append(('ws', i, m.end(), m.group(0)))
            i = m.end()
            continue
        m = _NUMBER.match(text, i)
        if m is not None:
            end = m.end()
            if end < n and (text[end].isalnum() or text[end] in '.+-_'):
                raise JsonError('malformed number', i)
            tokens.append(('number', i, end, m.group(0)))
            i = end
            continue
        for word, _val in _LITERALS:
            if text.startswith(word, i):
                end = i + len(word)
                if end < n and (text[end].isalnum() or text[end] == '_'):
                    raise JsonError('malformed literal', i)
                tokens.append((word, i, end, None))
                i = end
                break
        else:
            raise JsonError('unexpected character', i)
    return tokens


def number_value(tok_text):
    """int for -?digits, else the exactly rounded double."""
    p = numtext.parse_decimal(tok_text)
    if not p['dot'] and not p['has_exp']:
        return int(tok_text)
    val = numtext.decimal_to_double(p)
    if val is numtext.OVERFLOW:
        raise JsonError('number out of double range', 0)
    return val


class Info:
    def __init__(self):
        self.object_keys = []     # one list of keys (text order) per object
        self.numbers = []         # (token text, value)
        self.breaks = []          # (white-space text, depth of the following token, kind of the following token)
        self.nonempty = 0         # non-empty containers
        self.max_depth = 0


def parse(tokens):
    """Strict recursive-descent parse of a token list. Returns (value, Info)."""
    info = Info()
    sig = [t for t in tokens if t[0] != 'ws']
    pos = [0]

    def fail(what, tok=None):
        raise JsonError(what, tok[1] if tok is not None else -1)

    def value(depth):
        if pos[0] >= len(sig):
            fail('unexpected end of text')
        tok = sig[pos[0]]
        kind = tok[0]
        pos[0] += 1
        info.max_depth = max(info.max_depth, depth)
        if kind == 'string':
            return tok[3]
        if kind == 'number':
            val = number_value(tok[3])
            info.numbers.append((tok[3], val))
            return val
        for word, val in _LITERALS:
            if kind == word:
                return val
        if kind == '[':
            arr = []
            if pos[0] < len(sig) and sig[pos[0]][0] == ']':
                pos[0] += 1
                return arr
            info.nonempty += 1
            while True:
                arr.append(value(depth + 1))
                if pos[0] >= len(sig):
                    fail('unterminated array')
                sep = sig[pos[0]]
                pos[0] += 1
                if sep[0] == ']':
                    return arr
                if sep[0] != ',':
                    fail('expected , or ]', sep)
        if kind == '{':
            obj = {}
            keys = []
            info.object_keys.append(keys)
            if pos[0] < len(sig) and sig[pos[0]][0] == '}':
                pos[0] += 1
                return obj
            info.nonempty += 1
            while True:
                if pos[0] + 1 >= len(sig):
                    fail('unterminated object')
                ktok, colon = sig[pos[0]], sig[pos[0] + 1]
                if ktok[0] != 'string':
                    fail('object key is not a string', ktok)
                if colon[0] != ':':
                    fail('expected :', colon)
                pos[0] += 2
                if ktok[3] in obj:
                    fail('duplicate object key', ktok)
                keys.append(ktok[3])
                obj[ktok[3]] = value(depth + 1)
                if pos[0] >= len(sig):
                    fail('unterminated object')
                sep = sig[pos[0]]
                pos[0] += 1
                if sep[0] == '}':
                    return obj
                if sep[0] != ',':
                    fail('expected , or }', sep)
        fail('unexpected token', tok)
        return None

    result = value(0)
    if pos[0] != len(sig):
        fail('text after the JSON value', sig[pos[0]])
    # white space: depth of the following significant token
    depth = 0
    for ix, tok in enumerate(tokens):
        kind = tok[0]
        if kind == 'ws':
            nxt = tokens[ix + 1][0] if ix + 1 < len(tokens) else 'end'
            info.breaks.append((tok[3], depth - 1 if nxt in (']', '}') else depth, nxt))
        elif kind in ('[', '{'):
            depth += 1
        elif kind in (']', '}'):
            depth -= 1
    return result, info


def loads(text):
    return parse(lex(text))


def is_number(v):
    return isinstance(v, (int, float)) and not isinstance(v, bool)


def equal(a, b):
    if a is None or b is None:
        return a is None and b is None
    if isinstance(a, bool) or isinstance(b, bool):
        return isinstance(a, bool) and isinstance(b, bool) and a == b
    if is_number(a) or is_number(b):
        return is_number(a) and is_number(b) and a == b
    if isinstance(a, str) or isinstance(b, str):
        return isinstance(a, str) and isinstance(b, str) and a == b
    if isinstance(a, list) or isinstance(b, list):
        return isinstance(a, list) and isinstance(b, list) and len(a) == len(b) and all(equal(x, y) for x, y in zip(a, b))
    if isinstance(a, dict) and isinstance(b, dict):
        return len(a) == len(b) and all(isinstance(k, str) and k in b and equal(v, b[k]) for k, v in a.items())
    return False


def key(v):
    """Hashable canonical form under `equal` (numbers by value, zero unsigned)."""
    if v is None or isinstance(v, (bool, str)):
        return (type(v).__name__, v)
    if is_number(v):
        if v == 0:
            return ('n', 0)
        if isinstance(v, float) and v == int(v):
            return ('n', int(v))
        return ('n', v)
    if isinstance(v, list):
        return ('a',) + tuple(key(x) for x in v)
    if isinstance(v, dict):
        return ('o',) + tuple((k, key(v[k])) for k in sorted(v))
    return ('host', repr(v))
