"""Reference models of the array*, object*, string* library functions (DESIGN 2.4, appendix A.3; property C15).

Written from the `$doc/$arg/$return` comments and the documented signatures (type / nullable / default / integer /
lower bound per parameter) - plain list, dict and str operations, as boring as possible. Shares no code with
bare_script. Arrays are Python lists, objects Python dicts, mutated in place, so aliasing is Python's own.

    out = call('arraySet', [the_list, 1.0, 'x'])      # -> Outcome(failed=False, value='x'), the_list mutated
    out.failed   the call is a documented failure (wrong type, null where not accepted, missing required argument,
                 surplus argument, non-integer or out-of-range index); value is then the documented failure value and
                 no argument has been changed
    out.value    the result, or UNSPECIFIED where the documentation leaves the corner open (then nothing is compared)

Function-typed arguments on the reference side are plain Python callables taking the positional script arguments.
"""

import functools

from .values import UNSPECIFIED, compare, rtype
from .values import string as value_text

FAIL = ('FAIL',)        # internal: the body found a documented range violation
NODEFAULT = ('NODEFAULT',)
MUTATORS = frozenset(('arrayDelete', 'arrayExtend', 'arrayPop', 'arrayPush', 'arraySet', 'arrayShift', 'arraySort',
                      'objectAssign', 'objectDelete', 'objectSet'))


class Outcome:
    __slots__ = ('failed', 'value')

    def __init__(self, failed, value):
        self.failed = failed
        self.value = value

    def __repr__(self):
        return f'Outcome(failed={self.failed}, value={self.value!r})'


class P:
    """One documented parameter. type None = any value. rest = 'name...' (collects the remaining arguments)."""
    __slots__ = ('name', 'type', 'nullable', 'default', 'integer', 'gte', 'rest')

    def __init__(self, name, type_=None, nullable=False, default=NODEFAULT, integer=False, gte=None, rest=False):
        self.name = name
        self.type = type_
        self.nullable = nullable
        self.default = default
        self.integer = integer
        self.gte = gte
        self.rest = rest


def bind(params, args):
    """A.3: positional binding. Returns the list of parameter values, or None when the call is a failure."""
    has_rest = bool(params) and params[-1].rest
    if not has_rest and len(args) > len(params):
        return None                                     # surplus argument
    out = []
    for i, p in enumerate(params):
        if p.rest:
            out.append(list(args[i:]))
            break
        if i >= len(args):                              # missing trailing argument: its default, else null
            if p.default is not NODEFAULT:
                out.append(p.default)
            elif p.type is None or p.nullable:
                out.append(None)
            else:
                return None                             # null is not accepted here
            continue
        v = args[i]
        if p.type is None:
            out.append(v)
            continue
        if v is None:
            if not p.nullable:
                return None
            out.append(None)
            continue
        if rtype(v) != p.type:                          # booleans are not numbers (rtype)
            return None
        if p.type == 'number':
            finite = v == v and v not in (float('inf'), float('-inf'))
            if finite and isinstance(v, int):
                try:
                    float(v)
                except OverflowError:
                    finite = False      # a host integer beyond the float range is not a usable index, count or size
            if p.integer and (not finite or v != int(v)):
                return None
            if p.gte is not None and not v >= p.gte:
                return None
        out.append(v)
    return out


def _index(name='index', **kw):
    return P(name, 'number', integer=True, gte=0, **kw)


# ---------------------------------------------------------------------------------------------------------------
# Arrays
# ---------------------------------------------------------------------------------------------------------------

def _array_copy(array):
    return list(array)


def _array_delete(array, index):
    if index >= len(array):
        return FAIL
    del array[int(index)]
    # "$return: The array element" is what the doc comment says, the repository's own test pins null: left open
    return UNSPECIFIED


def _array_extend(array, array2):
    for v in list(array2):          # a snapshot: extending an array with itself doubles it
        array.append(v)
    return array


def _array_get(array, index):
    if index >= len(array):
        return FAIL
    return array[int(index)]


def _matches(value):
    if rtype(value) == 'function':
        from .values import truthy  # pylint: disable=import-outside-toplevel
        return lambda elem: truthy(value(elem))
    return lambda elem: compare(elem, value) == 0


def _array_index_of(array, value, index):
    if index >= len(array):
        return FAIL                 # (-1 as well when the array is empty; only the classification is open)
    hit = _matches(value)
    for ix in range(int(index), len(array)):
        if hit(array[ix]):
            return ix
    return -1


def _array_last_index_of(array, value, index):
    if index is None:
        index = len(array) - 1
    if index >= len(array):
        return FAIL
    hit = _matches(value)
    ix = int(index)
    while ix >= 0:
        if hit(array[ix]):
            return ix
        ix -= 1
    return -1


def _array_join(array, separator):
    parts = [value_text(v) for v in array]
    if any(p is UNSPECIFIED for p in parts):
        return UNSPECIFIED
    return separator.join(parts)


def _array_length(array):
    return len(array)


def _array_new(values):
    return list(values)


def _array_new_size(size, value):
    return [value for _ in range(int(size))]


def _array_pop(array):
    if not array:
        return FAIL                 # "null if the array is empty"
    return array.pop()


def _array_push(array, values):
    for v in values:
        array.append(v)
    return array


def _array_set(array, index, value):
    if index >= len(array):
        return FAIL
    array[int(index)] = value
    return value


def _array_shift(array):
    if not array:
        return FAIL
    first = array[0]
    del array[0]
    return first


def _array_slice(array, start, end):
    if end is None:
        end = len(array)
    if start > len(array) or end > len(array):
        return FAIL
    if end < start:
        return UNSPECIFIED          # an empty or reversed range is not described
    return [array[i] for i in range(int(start), int(end))]


def _array_sort(array, compare_fn):
    if compare_fn is None:
        key = functools.cmp_to_key(compare)
    else:
        def cmp(a, b):
            r = compare_fn(a, b)
            return -1 if r < 0 else (1 if r > 0 else 0)
        key = functools.cmp_to_key(cmp)
    ordered = sorted(array, key=key)    # stable, as C11 requires of arraySort
    array[:] = ordered
    return array


# ---------------------------------------------------------------------------------------------------------------
# Objects
# ---------------------------------------------------------------------------------------------------------------

def _object_assign(obj, obj2):
    for k, v in list(obj2.items()):
        obj[k] = v
    return obj


def _object_copy(obj):
    return dict(obj)


def _object_delete(obj, key):
    if key in obj:
        del obj[key]
    return UNSPECIFIED              # no $return documented


def _object_get(obj, key, default_value):
    return obj[key] if key in obj else default_value


def _object_has(obj, key):
    return key in obj


def _object_keys(obj):
    return sorted(obj)              # the order of the keys is not documented: callers compare as a sorted list


def _object_new(key_values):
    obj = {}
    odd = len(key_values) % 2 == 1
    for i in range(0, len(key_values), 2):
        if rtype(key_values[i]) != 'string':
            return FAIL
    if odd:
        return UNSPECIFIED          # a key without a value is not described
    for i in range(0, len(key_values), 2):
        obj[key_values[i]] = key_values[i + 1]
    return obj


def _object_set(obj, key, value):
    obj[key] = value
    return value


# ---------------------------------------------------------------------------------------------------------------
# Strings (immutable code-point sequences). Searching is written out naively on purpose.
# ---------------------------------------------------------------------------------------------------------------

def _ascii(s):
    return all(ord(c) < 128 for c in s)


def _at(string, search, pos):
    return string[pos:pos + len(search)] == search and pos + len(search) <= len(string)


def _string_char_code_at(string, index):
    if index >= len(string):
        return FAIL
    return ord(string[int(index)])


def _string_ends_with(string, search):
    if search == '':
        return UNSPECIFIED
    return len(search) <= len(string) and _at(string, search, len(string) - len(search))


def _string_from_char_code(codes):
    for c in codes:
        if rtype(c) != 'number' or c != c or c in (float('inf'), float('-inf')) or c != int(c) or c < 0:
            return FAIL
    for c in codes:
        if c > 0x10FFFF or 0xD800 <= c <= 0xDFFF:
            return UNSPECIFIED      # not a Unicode scalar value
    return ''.join(chr(int(c)) for c in codes)


def _string_index_of(string, search, index):
    if search == '':
        return UNSPECIFIED
    if index >= len(string):
        return FAIL
    for pos in range(int(index), len(string)):
        if _at(string, search, pos):
            return pos
    return -1


def _string_last_index_of(string, search, index):
    if search == '':
        return UNSPECIFIED
    if index is None:
        index = len(string) - 1
    if index >= len(string):
        return FAIL
    pos = int(index)
    while pos >= 0:
        if _at(string, search, pos):
            return pos
        pos -= 1
    return -1


def _string_length(string):
    return len(string)


_LOWER = {chr(ord('A') + i): chr(ord('a') + i) for i in range(26)}
_UPPER = {v: k for k, v in _LOWER.items()}


def _string_lower(string):
    if not _ascii(string):
        return UNSPECIFIED
    return ''.join(_LOWER.get(c, c) for c in string)


def _string_upper(string):
    if not _ascii(string):
        return UNSPECIFIED
    return ''.join(_UPPER.get(c, c) for c in string)


def _string_new(value):
    return value_text(value)


def _string_repeat(string, count):
    out = ''
    for _ in range(int(count)):
        out += string
    return out


def _string_replace(string, substr, new_substr):
    if substr == '':
        return UNSPECIFIED
    out = []
    pos = 0
    while pos < len(string):
        if _at(string, substr, pos):
            out.append(new_substr)
            pos += len(substr)
        else:
            out.append(string[pos])
            pos += 1
    return ''.join(out)


def _string_slice(string, start, end):
    if end is None:
        end = len(string)
    if start > len(string) or end > len(string):
        return FAIL
    if end < start:
        return UNSPECIFIED
    return ''.join(string[i] for i in range(int(start), int(end)))


def _string_split(string, separator):
    if separator == '':
        return UNSPECIFIED
    parts = []
    cur = []
    pos = 0
    while pos < len(string):
        if _at(string, separator, pos):
            parts.append(''.join(cur))
            cur = []
            pos += len(separator)
        else:
            cur.append(string[pos])
            pos += 1
    parts.append(''.join(cur))
    return parts


def _string_starts_with(string, search):
    if search == '':
        return UNSPECIFIED
    return _at(string, search, 0)


_ASCII_SPACE = ' \t\n\r\x0b\x0c'


def _string_trim(string):
    if not _ascii(string):
        return UNSPECIFIED          # which non-ASCII characters count as white space is not documented
    if any(ord(c) < 32 and c not in _ASCII_SPACE for c in string):
        return UNSPECIFIED          # other control characters (FS, GS, ...) likewise
    a, b = 0, len(string)
    while a < b and string[a] in _ASCII_SPACE:
        a += 1
    while b > a and string[b - 1] in _ASCII_SPACE:
        b -= 1
    return string[a:b]


# regexEscape / urlEncode / urlEncodeComponent: the text of the result is not documented, only its purpose; the
# reference models the signature (failure classification) and C15 checks the purpose (match exactly s; reversible).
def _opaque(_string):
    return UNSPECIFIED


A = 'array'
O = 'object'
S = 'string'

FUNCS = {
    'arrayCopy': ([P('array', A)], _array_copy),
    'arrayDelete': ([P('array', A), _index()], _array_delete),
    'arrayExtend': ([P('array', A), P('array2', A)], _array_extend),
    'arrayGet': ([P('array', A), _index()], _array_get),
    'arrayIndexOf': ([P('array', A), P('value'), _index(default=0)], _array_index_of),
    'arrayJoin': ([P('array', A), P('separator', S)], _array_join),
    'arrayLastIndexOf': ([P('array', A), P('value'), _index(nullable=True)], _array_last_index_of),
    'arrayLength': ([P('array', A)], _array_length),
    'arrayNew': ([P('values', rest=True)], _array_new),
    'arrayNewSize': ([_index('size', default=0), P('value', default=0)], _array_new_size),
    'arrayPop': ([P('array', A)], _array_pop),
    'arrayPush': ([P('array', A), P('values', rest=True)], _array_push),
    'arraySet': ([P('array', A), _index(), P('value')], _array_set),
    'arrayShift': ([P('array', A)], _array_shift),
    'arraySlice': ([P('array', A), _index('start', default=0), _index('end', nullable=True)], _array_slice),
    'arraySort': ([P('array', A), P('compareFn', 'function', nullable=True)], _array_sort),
    'objectAssign': ([P('object', O), P('object2', O)], _object_assign),
    'objectCopy': ([P('object', O)], _object_copy),
    'objectDelete': ([P('object', O), P('key', S)], _object_delete),
    'objectGet': ([P('object', O), P('key', S), P('defaultValue')], _object_get),
    'objectHas': ([P('object', O), P('key', S)], _object_has),
    'objectKeys': ([P('object', O)], _object_keys),
    'objectNew': ([P('keyValues', rest=True)], _object_new),
    'objectSet': ([P('object', O), P('key', S), P('value')], _object_set),
    'stringCharCodeAt': ([P('string', S), _index()], _string_char_code_at),
    'stringEndsWith': ([P('string', S), P('search', S)], _string_ends_with),
    'stringFromCharCode': ([P('charCodes', rest=True)], _string_from_char_code),
    'stringIndexOf': ([P('string', S), P('search', S), _index(default=0)], _string_index_of),
    'stringLastIndexOf': ([P('string', S), P('search', S), _index(nullable=True)], _string_last_index_of),
    'stringLength': ([P('string', S)], _string_length),
    'stringLower': ([P('string', S)], _string_lower),
    'stringNew': ([P('value')], _string_new),
    'stringRepeat': ([P('string', S), _index('count')], _string_repeat),
    'stringReplace': ([P('string', S), P('substr', S), P('newSubstr', S)], _string_replace),
    'stringSlice': ([P('string', S), _index('start'), _index('end', nullable=True)], _string_slice),
    'stringSplit': ([P('string', S), P('separator', S)], _string_split),
    'stringStartsWith': ([P('string', S), P('search', S)], _string_starts_with),
    'stringTrim': ([P('string', S)], _string_trim),
    'stringUpper': ([P('string', S)], _string_upper),
    'regexEscape': ([P('string', S)], _opaque),
    'urlEncode': ([P('url', S)], _opaque),
    'urlEncodeComponent': ([P('url', S)], _opaque),
}

FAILURE_VALUE = {
    'arrayIndexOf': -1, 'arrayLastIndexOf': -1, 'stringIndexOf': -1, 'stringLastIndexOf': -1,
    'arrayLength': 0, 'stringLength': 0,
    'objectHas': False,
}


def failure_value(name, args):
    """A.3: -1 for the IndexOf family, 0 for the two length functions, false for objectHas, the supplied default for
    objectGet, null for everything else."""
    if name == 'objectGet':
        return args[2] if len(args) >= 3 else None
    return FAILURE_VALUE.get(name)


def call(name, args):
    params, body = FUNCS[name]
    vals = bind(params, args)
    if vals is None:
        return Outcome(True, failure_value(name, args))
    res = body(*vals)
    if res is FAIL:
        return Outcome(True, failure_value(name, args))
    return Outcome(False, res)
