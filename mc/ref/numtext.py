"""Reference model of decimal number text (C13). Shares no code with bare_script and does not use float(str).

* a strict decimal grammar, in three rings:
    core    [+-]? digits ( . digits* )? ( e [+-] digits )?     - the numeric literal syntax of the language and every
                                                                  form number stringification produces: MUST be accepted
    wide    [+-]? ( digits .? digits* | . digits ) ( [eE] [+-]? digits )?   - other customary decimal spellings
                                                                  (.5, 1E5, 1e5): MAY be accepted, then with this value
    padded  a core/wide text with ASCII white space around it   - UNSPECIFIED (may be accepted, then with this value)
  everything else is not a number: MUST give null.
* the value of a decimal text as an exact rational, and its correctly rounded (round-half-even) IEEE-754 double
  computed with integer arithmetic only.
* the same for integer text in a radix 2..36.
"""

import math
import re

_FLOAT = re.compile(r'([+-]?)(?:([0-9]+)(?:(\.)([0-9]*))?|\.([0-9]+))(?:([eE])([+-]?)([0-9]+))?')
# ASCII white space plus NBSP, figure space, thin space, narrow NBSP (escapes, the source stays ASCII): around a number = padding (UNSPECIFIED)
_WS = ' \t\n\r\f\v\u00a0\u2007\u2009\u202f'
DIGITS = '0123456789abcdefghijklmnopqrstuvwxyz'

OVERFLOW = ('OVERFLOW',)


def parse_decimal(text):
    """None if `text` is not in the wide grammar, else a dict: ring ('core'|'wide'), neg, digits (int), exp10 (int),
    intpart, dot, frac, exp marker fields (for format checks)."""
    m = _FLOAT.fullmatch(text)
    if m is None:
        return None
    sign, ipart, dot, frac, lead_frac, emark, esign, edigits = m.groups()
    if lead_frac is not None:
        ipart, dot, frac = '', '.', lead_frac
    frac = frac or ''
    exp = 0
    if emark is not None:
        exp = int(edigits)
        if esign == '-':
            exp = -exp
    core = lead_frac is None and (emark is None or (emark == 'e' and esign != ''))
    return {
        'ring': 'core' if core else 'wide',
        'neg': sign == '-',
        'digits': int((ipart + frac) or '0'),
        'ndigits': len((ipart + frac).lstrip('0')),
        'exp10': exp - len(frac),
        'intpart': ipart, 'dot': dot is not None, 'frac': frac, 'has_exp': emark is not None,
    }


def classify_float(text):
    """-> (ring, parsed) with ring in 'core', 'wide', 'padded', 'reject'."""
    p = parse_decimal(text)
    if p is not None:
        return p['ring'], p
    stripped = text.strip(_WS)
    if stripped != text:
        p = parse_decimal(stripped)
        if p is not None:
            return 'padded', p
    return 'reject', None


def _round_half_even_div(n, d):
    q, r = divmod(n, d)
    if 2 * r > d or (2 * r == d and (q & 1)):
        q += 1
    return q


def ratio_to_double(n, d):
    """Correctly rounded double of the positive rational n/d (n >= 0, d > 0), or OVERFLOW. Integer arithmetic only."""
    if n == 0:
        return 0.0
    a = n.bit_length() - d.bit_length()       # 2^(a-1) < n/d < 2^(a+1)
    e = a - 53                                 # then n/d / 2^e is in (2^52, 2^54)
    # make n/d / 2^e < 2^53
    s = e + 53
    if (n >= (d << s)) if s >= 0 else ((n << -s) >= d):
        e += 1
    e = max(e, -1074)
    if e >= 0:
        q = _round_half_even_div(n, d << e)
    else:
        q = _round_half_even_div(n << -e, d)
    if q == 1 << 53:
        q >>= 1
        e += 1
    if e > 971:
        return OVERFLOW
    return math.ldexp(float(q), e)


def decimal_to_double(p):
    """Correctly rounded double (with sign, -0.0 for a negative zero) of a parsed decimal, or OVERFLOW."""
    digits, exp10 = p['digits'], p['exp10']
    if digits == 0:
        val = 0.0
    else:
        mag = p['ndigits'] + exp10            # 10^(mag-1) <= value < 10^mag
        if mag > 310:
            return OVERFLOW
        if mag < -330:
            val = 0.0
        elif exp10 >= 0:
            val = ratio_to_double(digits * 10 ** exp10, 1)
        else:
            val = ratio_to_double(digits, 10 ** -exp10)
        if val is OVERFLOW:
            return OVERFLOW
    return -val if p['neg'] else val


def is_nonzero(p):
    return p['digits'] != 0


def classify_int(text, radix):
    """-> (ring, value): ring 'core' ([+-]? digits of the radix+): MUST give value; 'open' (UNSPECIFIED: may give null or value):
    white-space padded core text, a 0x/0o/0b prefix matching the radix, radix 10 and a decimal text with an empty or all-zero
    fraction, upper-case letter digits; 'reject': MUST give null."""
    v = _int_core(text, radix)
    if v is not None:
        # upper-case letter digits are customary but not stated anywhere: open
        return ('core' if text == text.lower() else 'open'), v
    stripped = text.strip(_WS)
    body = stripped
    sign = 1
    if body[:1] in ('+', '-'):
        sign = -1 if body[0] == '-' else 1
        body = body[1:]
    prefix = {16: ('0x', '0X'), 8: ('0o', '0O'), 2: ('0b', '0B')}.get(radix, ())
    if body[:2] in prefix:
        v = _int_core(body[2:], radix)
        if v is not None and body[2:3] not in ('+', '-'):
            return 'open', sign * v
        return 'reject', None
    v = _int_core(stripped, radix)
    if v is not None:
        return 'open', v
    if radix == 10:
        m = re.fullmatch(r'([+-]?)([0-9]+)\.0*', stripped)
        if m is not None:
            return 'open', (-1 if m.group(1) == '-' else 1) * int(m.group(2))
    return 'reject', None


def _int_core(text, radix):
    body = text
    sign = 1
    if body[:1] in ('+', '-'):
        sign = -1 if body[0] == '-' else 1
        body = body[1:]
    if not body:
        return None
    val = 0
    for ch in body:
        k = DIGITS.find(ch.lower()) if ch.isascii() else -1
        if k < 0 or k >= radix:
            return None
        val = val * radix + k
    return sign * val


def double_bits(x):
    import struct  # pylint: disable=import-outside-toplevel
    return struct.unpack('>Q', struct.pack('>d', x))[0]


def bits_double(b):
    import struct  # pylint: disable=import-outside-toplevel
    return struct.unpack('>d', struct.pack('>Q', b))[0]
