"""Reference proleptic-Gregorian calendar arithmetic (DESIGN 2.4, C16).

Pure integer arithmetic. Nothing here imports `datetime`, `calendar` or `bare_script`; the only library used is
`time.localtime` (the C library's view of the process time zone), and only by the functions in the last section
that relate civil local time to instants. A "civil" value is a 7-tuple of ints
(year, month, day, hour, minute, second, millisecond).

Written from the property text: out-of-range month, day, hour, minute, second and millisecond components are
normalised "exactly as proleptic-Gregorian calendar arithmetic does" - i.e. the month is reduced into 1..12 carrying
whole years, the day is an offset (day - 1) in days from the first day of that month, and the time components are
offsets from midnight of that day, all exact.
"""

import time

MS_PER_DAY = 86400000
MIN_YEAR = 1
MAX_YEAR = 9999


def is_leap(year):
    return year % 4 == 0 and (year % 100 != 0 or year % 400 == 0)


def days_in_month(year, month):
    if month == 2:
        return 29 if is_leap(year) else 28
    return 30 if month in (4, 6, 9, 11) else 31


def days_from_civil(year, month, day):
    """Days since 1970-01-01 of a proleptic-Gregorian date (month 1..12; day may be any integer offset)."""
    # Shift the year to start on March 1 so that the leap day is the last day of the shifted year
    y = year - 1 if month <= 2 else year
    era = y // 400                                   # floor division: correct for negative years too
    yoe = y - era * 400                              # [0, 399]
    mp = month - 3 if month > 2 else month + 9       # March = 0 ... February = 11
    doy = (153 * mp + 2) // 5 + (day - 1)            # day of the shifted year
    doe = yoe * 365 + yoe // 4 - yoe // 100 + doy    # day of era
    return era * 146097 + doe - 719468


def civil_from_days(z):
    """Inverse of days_from_civil: (year, month, day) of a day number."""
    z += 719468
    era = z // 146097
    doe = z - era * 146097                                       # [0, 146096]
    yoe = (doe - doe // 1460 + doe // 36524 - doe // 146096) // 365  # [0, 399]
    y = yoe + era * 400
    doy = doe - (365 * yoe + yoe // 4 - yoe // 100)              # [0, 365]
    mp = (5 * doy + 2) // 153                                    # [0, 11]
    d = doy - (153 * mp + 2) // 5 + 1
    m = mp + 3 if mp < 10 else mp - 9
    return (y + 1 if m <= 2 else y, m, d)


def civil_from_days_slow(z):
    """Second, deliberately naive inverse (walks years and months) used by the self-test of this module."""
    year = 1970
    while z < 0:
        year -= 1
        z += 366 if is_leap(year) else 365
    while z >= (366 if is_leap(year) else 365):
        z -= 366 if is_leap(year) else 365
        year += 1
    month = 1
    while z >= days_in_month(year, month):
        z -= days_in_month(year, month)
        month += 1
    return (year, month, z + 1)


def ms_from_civil(civil):
    """Milliseconds since 1970-01-01T00:00:00.000 on the same (zone-less) time line. Components may be out of range."""
    year, month, day, hour, minute, second, ms = civil
    months = year * 12 + (month - 1)
    y, m0 = divmod(months, 12)
    days = days_from_civil(y, m0 + 1, 1) + (day - 1)
    return (((days * 24 + hour) * 60 + minute) * 60 + second) * 1000 + ms


def civil_from_ms(total):
    days, rest = divmod(total, MS_PER_DAY)
    hour, rest = divmod(rest, 3600000)
    minute, rest = divmod(rest, 60000)
    second, ms = divmod(rest, 1000)
    return civil_from_days(days) + (hour, minute, second, ms)


def in_range(civil):
    return civil is not None and MIN_YEAR <= civil[0] <= MAX_YEAR


def normalise(year, month, day, hour=0, minute=0, second=0, ms=0):
    """The civil datetime that (possibly out-of-range) components denote; None if its year is outside 1..9999."""
    civil = civil_from_ms(ms_from_civil((year, month, day, hour, minute, second, ms)))
    return civil if in_range(civil) else None


def add_ms(civil, n):
    """civil + n milliseconds on the zone-less time line; None if the year leaves 1..9999."""
    out = civil_from_ms(ms_from_civil(civil) + n)
    return out if in_range(out) else None


def diff_ms(a, b):
    return ms_from_civil(a) - ms_from_civil(b)


def valid(civil):
    year, month, day, hour, minute, second, ms = civil
    return (MIN_YEAR <= year <= MAX_YEAR and 1 <= month <= 12 and 1 <= day <= days_in_month(year, month) and
            0 <= hour <= 23 and 0 <= minute <= 59 and 0 <= second <= 59 and 0 <= ms <= 999)


#
# ISO-8601 text (reference writer and reader for the two shapes the library documents: date, and datetime with offset)
#

def iso_text(civil, offset_s, frac=None):
    """ISO text of a local civil time with a whole-minute offset; milliseconds only if non-zero (A.1)."""
    year, month, day, hour, minute, second, ms = civil
    sign = '-' if offset_s < 0 else '+'
    oh, om = divmod(abs(offset_s) // 60, 60)
    if frac is None:
        frac = f'.{ms:03d}' if ms else ''
    return f'{year:04d}-{month:02d}-{day:02d}T{hour:02d}:{minute:02d}:{second:02d}{frac}{sign}{oh:02d}:{om:02d}'


def _digits(text):
    return text.isascii() and text.isdigit()      # ASCII digits only ('' is not)


def iso_read(text):
    """Strict reader. Returns
         ('date', (y, m, d))                         well-shaped date text (fields not range-checked)
         ('datetime', (y, m, d, h, mi, s), frac_digits, offset_fields)   well-shaped datetime text;
                      offset_fields is ('Z',) or (sign, hh, mm)
         None                                        any other shape
    The shapes are YYYY-MM-DD and YYYY-MM-DDTHH:MM:SS[.f{1,6}](Z|+HH:MM|-HH:MM)."""
    if not isinstance(text, str):
        return None
    if len(text) < 10 or text[4] != '-' or text[7] != '-':
        return None
    ys, ms_, ds = text[0:4], text[5:7], text[8:10]
    if not (_digits(ys) and _digits(ms_) and _digits(ds)):
        return None
    date = (int(ys), int(ms_), int(ds))
    if len(text) == 10:
        return ('date', date)
    rest = text[10:]
    if len(rest) < 9 or rest[0] != 'T' or rest[3] != ':' or rest[6] != ':':
        return None
    hs, mis, ss = rest[1:3], rest[4:6], rest[7:9]
    if not (_digits(hs) and _digits(mis) and _digits(ss)):
        return None
    tail = rest[9:]
    frac = ''
    if tail.startswith('.'):
        k = 1
        while k < len(tail) and tail[k] in '0123456789':
            k += 1
        frac = tail[1:k]
        tail = tail[k:]
        if not 1 <= len(frac) <= 6:
            return None
    if tail == 'Z':
        off = ('Z',)
    elif len(tail) == 6 and tail[0] in '+-' and tail[3] == ':' and _digits(tail[1:3]) and _digits(tail[4:6]):
        off = (tail[0], int(tail[1:3]), int(tail[4:6]))
    else:
        return None
    return ('datetime', date + (int(hs), int(mis), int(ss)), frac, off)


def iso_classify(text):
    """What the documentation lets us say about parsing `text`:
         ('shape',)                 not one of the two shapes: unspecified beyond "null or a datetime, never a failure"
         ('null',)                  well-shaped but not a date/time of the calendar, or year outside 1..9999: null
         ('open', why)              well-shaped and calendar-valid, but hour 24 / second 60 (ISO allows them, docs silent)
                                    or an offset field out of range (invalid ISO; the oracle only asks null-or-datetime)
         ('date', civil)            valid date: local midnight of that date
         ('instant', utc_ms)        valid datetime: that instant (milliseconds since the epoch, fraction truncated to ms)
    """
    rd = iso_read(text)
    if rd is None:
        return ('shape',)
    if rd[0] == 'date':
        y, m, d = rd[1]
        if not (MIN_YEAR <= y <= MAX_YEAR and 1 <= m <= 12 and 1 <= d <= days_in_month(y, m)):
            return ('null',)
        return ('date', (y, m, d, 0, 0, 0, 0))
    (y, m, d, h, mi, s), frac, off = rd[1], rd[2], rd[3]
    if not (MIN_YEAR <= y <= MAX_YEAR and 1 <= m <= 12 and 1 <= d <= days_in_month(y, m)):
        return ('null',)
    if h > 24 or mi > 59 or s > 60:
        return ('null',)
    if h == 24 or s == 60:
        return ('open', 'hour 24 / second 60')
    if off[0] != 'Z' and (off[1] > 23 or off[2] > 59):
        # Not a valid ISO offset. The property's oracle (DESIGN 4/C16 O) only asks "null or a datetime" of such texts;
        # kept open and counted separately (the implementation reads +05:95 as +06:35).
        return ('open', 'offset field out of range')
    ms = int((frac + '000')[:3]) if frac else 0
    off_s = 0 if off[0] == 'Z' else (off[1] * 3600 + off[2] * 60) * (-1 if off[0] == '-' else 1)
    return ('instant', ms_from_civil((y, m, d, h, mi, s, ms)) - off_s * 1000)


#
# Civil local time <-> instants, through the C library's tz database (time.localtime) for the process zone
#

def local_of_instant(utc_ms):
    """(civil local time, utc offset in seconds) of an instant in the process time zone."""
    sec, ms = divmod(utc_ms, 1000)
    st = time.localtime(sec)
    return (st.tm_year, st.tm_mon, st.tm_mday, st.tm_hour, st.tm_min, st.tm_sec, ms), st.tm_gmtoff


def instants_of_local(civil):
    """All (utc_ms, offset_s) whose local civil time in the process zone is `civil`:
    [] = the local time does not exist (gap), one = exists, two = ambiguous (fold).
    Candidate offsets are those in force one day before and one day after (covers every zone whose
    transitions are more than two days apart)."""
    naive = ms_from_civil(civil)
    sec = naive // 1000
    cands = []
    for probe in (sec - 86400, sec + 86400, sec):
        off = time.localtime(probe).tm_gmtoff
        if off not in cands:
            cands.append(off)
    out = []
    for off in cands:
        got, off2 = local_of_instant(naive - off * 1000)
        if got == tuple(civil) and off2 == off:
            out.append((naive - off * 1000, off))
    out.sort()
    return out


def selftest():
    """Internal consistency of this module (run by mc/selftest.py); uses only its own two inverses and fixed dates."""
    assert days_from_civil(1970, 1, 1) == 0 and days_from_civil(2000, 3, 1) == 11017 and days_from_civil(1969, 12, 31) == -1
    assert civil_from_days(19782) == (2024, 2, 29) and days_from_civil(2024, 2, 29) == 19782
    assert not is_leap(1900) and is_leap(2000) and not is_leap(2100) and is_leap(2024)
    prev = days_from_civil(99, 12, 31)
    for year in (100, 1899, 1900, 2000, 2023, 2024, 2100, 9999):
        z = days_from_civil(year, 1, 1)
        for month in range(1, 13):
            for day in range(1, days_in_month(year, month) + 1):
                assert days_from_civil(year, month, day) == z
                assert civil_from_days(z) == (year, month, day) == civil_from_days_slow(z)
                z += 1
        assert z == days_from_civil(year + 1, 1, 1)
    assert prev + 1 == days_from_civil(100, 1, 1)
    assert normalise(2024, 14, 31) == (2025, 3, 3, 0, 0, 0, 0)
    assert normalise(2024, 0, 0, -1, -1, -1, -1) == (2023, 11, 29, 22, 58, 58, 999)
    assert normalise(9999, 12, 31, 24) is None
    assert iso_classify('2024-02-30') == ('null',) and iso_classify('2024-02-29')[0] == 'date'
    assert iso_classify('1970-01-01T00:00:00.5+01:00') == ('instant', -3599500)
    assert iso_text((2024, 2, 29, 1, 2, 3, 4), -(9 * 3600 + 1800)) == '2024-02-29T01:02:03.004-09:30'
