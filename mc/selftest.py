"""setup_cmd: sanity of the harness itself (no verdict about the code). Exits non-zero on a broken harness."""
import sys

from .common import load_impl
from .ref import values as rv


def main():
    bs = load_impl()
    assert hasattr(bs, 'parse_script') and hasattr(bs, 'execute_script')
    # reference value model against the repository's own documented examples
    assert rv.compare(None, 0) == -1 and rv.compare(1, 1.0) == 0 and rv.compare([1], [1, 2]) == -1
    assert rv.compare('a', 1) == 1 and rv.compare(True, 1) == -1   # 'boolean' < 'number' < 'string'
    assert rv.string(1.0) == '1' and rv.string(1e16) == '1e+16' and rv.string(0.5) == '0.5'
    assert rv.json_text({'b': 1.0, 'a': [None, True, 'x"']}) == '{"a":[null,true,"x\\""],"b":1}'
    for mod in ('expr', 'bigstep', 'jumpvm', 'blocks', 'lib', 'data', 'civil', 'urls'):
        try:
            m = __import__(f'mc.ref.{mod}', fromlist=['selftest'])
        except ModuleNotFoundError:
            continue
        if hasattr(m, 'selftest'):
            m.selftest()
    print('selftest ok')
    return 0


if __name__ == '__main__':
    sys.exit(main())
